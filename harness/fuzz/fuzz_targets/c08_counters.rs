#![no_main]
use libfuzzer_sys::fuzz_target;
use mbnverif::props::*;

fuzz_target!(|data: &[u8]| {
    if let Err(replay) = mbnverif::rt::fuzz_one::<c08::C08>("counters", data) {
        panic!("property violated, replay file: {replay}");
    }
});
