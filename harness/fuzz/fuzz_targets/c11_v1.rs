#![no_main]
use libfuzzer_sys::fuzz_target;
use mbnverif::props::*;

fuzz_target!(|data: &[u8]| {
    if let Err(replay) = mbnverif::rt::fuzz_one::<c11::C11>("v1", data) {
        panic!("property violated, replay file: {replay}");
    }
});
