#![no_main]
use libfuzzer_sys::fuzz_target;
use mbnverif::props::*;

fuzz_target!(|data: &[u8]| {
    if let Err(replay) = mbnverif::rt::fuzz_one::<c05::C05>("random_const", data) {
        panic!("property violated, replay file: {replay}");
    }
});
