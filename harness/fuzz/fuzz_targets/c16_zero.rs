#![no_main]
use libfuzzer_sys::{fuzz_mutator, fuzz_target};
use mbnverif::props::*;

fuzz_target!(|data: &[u8]| {
    if let Err(replay) = mbnverif::rt::fuzz_one::<c16::C16>("zero", data) {
        panic!("property violated, replay file: {replay}");
    }
});

fuzz_mutator!(|data: &mut [u8], size: usize, max_size: usize, seed: u32| {
    match mbnverif::rt::mutate_json(data, size, max_size, seed) {
        Some(n) => n,
        None => libfuzzer_sys::fuzzer_mutate(data, size, max_size),
    }
});
