use std::path::PathBuf;

use mbnverif::props::*;
use mbnverif::rt::*;

fn arg_val(args: &[String], name: &str) -> Option<String> {
    args.iter()
        .position(|a| a == name)
        .and_then(|i| args.get(i + 1).cloned())
}

macro_rules! dispatch {
    ($id:expr, $f:ident, $($arg:expr),*) => {
        match $id {
            "C01" => $f::<c01::C01>($($arg),*),
            "C02" => $f::<c02::C02>($($arg),*),
            "C03" => $f::<c03::C03>($($arg),*),
            "C04" => $f::<c04::C04>($($arg),*),
            "C05" => $f::<c05::C05>($($arg),*),
            "C06" => $f::<c06::C06>($($arg),*),
            "C07" => $f::<c07::C07>($($arg),*),
            "C08" => $f::<c08::C08>($($arg),*),
            "C09" => $f::<c09::C09>($($arg),*),
            "C10" => $f::<c10::C10>($($arg),*),
            "C11" => $f::<c11::C11>($($arg),*),
            "C12" => $f::<c12::C12>($($arg),*),
            "C13" => $f::<c13::C13>($($arg),*),
            "C14" => $f::<c14::C14>($($arg),*),
            "C15" => $f::<c15::C15>($($arg),*),
            "C16" => $f::<c16::C16>($($arg),*),
            "C17" => $f::<c16::C17>($($arg),*),
            "C18" => $f::<c16::C18>($($arg),*),
            "C19" => $f::<c19::C19>($($arg),*),
            "C20" => $f::<c20::C20>($($arg),*),
            other => {
                eprintln!("unknown property {other}");
                2
            }
        }
    };
}

fn main() {
    let args: Vec<String> = std::env::args().collect();
    if args.len() < 3 {
        eprintln!("usage: mbn-verif check|worker|replay <ID> ...");
        std::process::exit(2);
    }
    let cmd = args[1].as_str();
    let id = args[2].as_str();
    if cmd == "probe" {
        let code = match id {
            "sample" => c13::probe_sample(args.get(3).map(|s| s.as_str()).unwrap_or("")),
            "simdump" => c16::simdump(args.get(3).map(|s| s.as_str()).unwrap_or("")),
            _ => 2,
        };
        std::process::exit(code);
    }
    let env_seed = std::env::var("VERIF_SEED").ok().and_then(|s| s.parse::<u64>().ok());
    let seed = arg_val(&args, "--seed")
        .and_then(|s| s.parse().ok())
        .or(env_seed)
        .unwrap_or(1);
    let tier = arg_val(&args, "--tier")
        .or_else(|| std::env::var("VERIF_TIER").ok())
        .and_then(|t| Tier::parse(&t))
        .unwrap_or(Tier::Quick);
    let code = match cmd {
        "check" => {
            let jobs = arg_val(&args, "--jobs")
                .and_then(|s| s.parse().ok())
                .unwrap_or_else(|| {
                    std::thread::available_parallelism()
                        .map(|n| n.get() as u64)
                        .unwrap_or(8)
                        .min(16)
                });
            let da = DriverArgs { tier, seed, jobs };
            dispatch!(id, driver, &da)
        }
        "worker" => {
            let only = arg_val(&args, "--only").and_then(|s| {
                let (p, i) = s.rsplit_once(':')?;
                Some((p.to_string(), i.parse().ok()?))
            });
            let wa = WorkerArgs {
                tier,
                seed,
                shard: arg_val(&args, "--shard").and_then(|s| s.parse().ok()).unwrap_or(0),
                nshards: arg_val(&args, "--nshards").and_then(|s| s.parse().ok()).unwrap_or(1),
                out: PathBuf::from(arg_val(&args, "--out").unwrap_or_else(|| "/dev/null".into())),
                only,
                trace: arg_val(&args, "--trace").map(PathBuf::from),
                hang_secs: arg_val(&args, "--hang-secs").and_then(|s| s.parse().ok()).unwrap_or(60),
            };
            dispatch!(id, worker, &wa)
        }
        "fuzzcase" => {
            let a = (args.get(3).cloned().unwrap_or_default(), args.get(4).cloned().unwrap_or_default());
            dispatch!(id, fuzz_file, &a)
        }
        "corpus" => {
            let a = (
                seed,
                args.get(3).cloned().unwrap_or_default(),
                args.get(4).cloned().unwrap_or_default(),
                args.get(5).and_then(|s| s.parse().ok()).unwrap_or(64u64),
            );
            dispatch!(id, write_corpus, &a)
        }
        "gen" => {
            let a = (
                seed,
                args.get(3).cloned().unwrap_or_default(),
                args.get(4).and_then(|s| s.parse().ok()).unwrap_or(0),
            );
            dispatch!(id, print_case, &a)
        }
        "replay" => {
            let Some(path) = args.get(3) else {
                eprintln!("usage: mbn-verif replay <ID> <file>");
                std::process::exit(2);
            };
            let p = PathBuf::from(path);
            dispatch!(id, replay, &p)
        }
        _ => {
            eprintln!("unknown command {cmd}");
            2
        }
    };
    std::process::exit(code);
}
