//! Parsing the hook's flat step log of one call into a tree of deliveries.
//!
//! Grammar (what the hook positions imply):
//!   delivery(m)  := Transition{m, ev, state_before}
//!                   [ Target{m, target} ]                  -- absent when the machine has ended
//!                   [ delivery(m, CounterZero) ]           -- only directly after a regular target
//!                   [ Schedule{m, target} ]
//!   completion   := delivery(m) [ Withdraw{m} delivery(m, LimitReached) ]
//! Anything that does not fit is reported as an anomaly by the caller.

use maybenot::constants::{STATE_END, STATE_SIGNAL};
use maybenot::event::Event;
use maybenot::verif::VerifStep;

#[derive(Clone, Debug)]
pub struct Node {
    pub ext: usize,
    pub machine: usize,
    pub event: Event,
    pub state_before: usize,
    /// None: machine had ended (no draw); Some(None): no transition; Some(Some(t)): target
    pub target: Option<Option<usize>>,
    pub cz: Option<Box<Node>>,
    /// Some(state) when the action of `state` was scheduled for this delivery
    pub scheduled: Option<usize>,
}

impl Node {
    pub fn regular_target(&self) -> Option<usize> {
        match self.target {
            Some(Some(t)) if t != STATE_END && t != STATE_SIGNAL => Some(t),
            _ => None,
        }
    }
    pub fn signalled(&self) -> bool {
        self.target == Some(Some(STATE_SIGNAL))
    }
    /// pre-order walk
    pub fn walk<'a>(&'a self, f: &mut dyn FnMut(&'a Node)) {
        f(self);
        if let Some(c) = &self.cz {
            c.walk(f);
        }
    }
    /// did this delivery or a nested one schedule anything?
    pub fn any_schedule(&self) -> bool {
        self.scheduled.is_some() || self.cz.as_ref().map(|c| c.any_schedule()).unwrap_or(false)
    }
}

#[derive(Clone, Debug)]
pub enum Item {
    Delivery(Node),
    Withdraw(usize),
}

pub struct Parsed {
    pub items: Vec<Item>,
    pub anomalies: Vec<String>,
}

fn parse_delivery(steps: &[VerifStep], i: &mut usize, anomalies: &mut Vec<String>) -> Option<Node> {
    let VerifStep::Transition { ext, machine, event, state_before } = &steps[*i] else {
        return None;
    };
    let mut node = Node {
        ext: *ext,
        machine: *machine,
        event: *event,
        state_before: *state_before,
        target: None,
        cz: None,
        scheduled: None,
    };
    *i += 1;
    if *i < steps.len() {
        if let VerifStep::Target { machine: m2, target } = &steps[*i] {
            if *m2 == node.machine {
                node.target = Some(*target);
                *i += 1;
            } else {
                anomalies.push(format!("Target for machine {m2} follows a delivery to machine {}", node.machine));
            }
        }
    }
    if node.target.is_none() && node.state_before != STATE_END {
        anomalies.push(format!("delivery to live machine {} without a sampled target", node.machine));
    }
    if let Some(t) = node.regular_target() {
        // nested CounterZero
        if *i < steps.len() {
            if let VerifStep::Transition { machine: m2, event: Event::CounterZero, .. } = &steps[*i] {
                if *m2 == node.machine {
                    node.cz = parse_delivery(steps, i, anomalies).map(Box::new);
                }
            }
        }
        if *i < steps.len() {
            if let VerifStep::Schedule { machine: m2, state } = &steps[*i] {
                if *m2 == node.machine && *state == t {
                    node.scheduled = Some(*state);
                    *i += 1;
                }
            }
        }
    }
    Some(node)
}

pub fn parse(steps: &[VerifStep]) -> Parsed {
    let mut items = vec![];
    let mut anomalies = vec![];
    let mut i = 0;
    while i < steps.len() {
        match &steps[i] {
            VerifStep::Transition { .. } => {
                if let Some(n) = parse_delivery(steps, &mut i, &mut anomalies) {
                    items.push(Item::Delivery(n));
                }
            }
            VerifStep::Withdraw { machine } => {
                items.push(Item::Withdraw(*machine));
                i += 1;
            }
            VerifStep::Target { machine, .. } => {
                anomalies.push(format!("stray Target for machine {machine}"));
                i += 1;
            }
            VerifStep::Schedule { machine, state } => {
                anomalies.push(format!("stray Schedule for machine {machine} state {state}"));
                i += 1;
            }
        }
    }
    Parsed { items, anomalies }
}
