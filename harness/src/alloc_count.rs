//! Counting global allocator: live bytes and peak live bytes (C11 memory
//! oracle, C20 leak oracle). A few atomic operations per allocation.

use std::alloc::{GlobalAlloc, Layout, System};
use std::sync::atomic::{AtomicIsize, Ordering};

pub struct Counting;

// signed: memory allocated before tracking started may be freed afterwards
static LIVE: AtomicIsize = AtomicIsize::new(0);
static PEAK: AtomicIsize = AtomicIsize::new(0);

thread_local! {
    /// only the thread that runs the cases is accounted (the watchdog thread's
    /// own bookkeeping must not show up as a leak or a release)
    static TRACK: std::cell::Cell<bool> = const { std::cell::Cell::new(false) };
}

fn tracked() -> bool {
    TRACK.try_with(|t| t.get()).unwrap_or(false)
}

/// Account the allocations of the calling thread from now on.
pub fn track_this_thread() {
    TRACK.with(|t| t.set(true));
}

unsafe impl GlobalAlloc for Counting {
    unsafe fn alloc(&self, l: Layout) -> *mut u8 {
        let p = System.alloc(l);
        if !p.is_null() && tracked() {
            let now = LIVE.fetch_add(l.size() as isize, Ordering::Relaxed).wrapping_add(l.size() as isize);
            PEAK.fetch_max(now, Ordering::Relaxed);
        }
        p
    }
    unsafe fn alloc_zeroed(&self, l: Layout) -> *mut u8 {
        let p = System.alloc_zeroed(l);
        if !p.is_null() && tracked() {
            let now = LIVE.fetch_add(l.size() as isize, Ordering::Relaxed).wrapping_add(l.size() as isize);
            PEAK.fetch_max(now, Ordering::Relaxed);
        }
        p
    }
    unsafe fn dealloc(&self, p: *mut u8, l: Layout) {
        System.dealloc(p, l);
        if tracked() {
            LIVE.fetch_sub(l.size() as isize, Ordering::Relaxed);
        }
    }
    unsafe fn realloc(&self, p: *mut u8, l: Layout, new_size: usize) -> *mut u8 {
        let q = System.realloc(p, l, new_size);
        if !q.is_null() && tracked() {
            if new_size >= l.size() {
                let d = (new_size - l.size()) as isize;
                let now = LIVE.fetch_add(d, Ordering::Relaxed).wrapping_add(d);
                PEAK.fetch_max(now, Ordering::Relaxed);
            } else {
                LIVE.fetch_sub((l.size() - new_size) as isize, Ordering::Relaxed);
            }
        }
        q
    }
}

pub fn live() -> isize {
    LIVE.load(Ordering::Relaxed)
}

/// Run `f` and return (result, peak live bytes above the level at entry).
pub fn measure_peak<T>(f: impl FnOnce() -> T) -> (T, usize) {
    let base = LIVE.load(Ordering::Relaxed);
    PEAK.store(base, Ordering::Relaxed);
    let r = f();
    let peak = PEAK.load(Ordering::Relaxed);
    (r, peak.saturating_sub(base).max(0) as usize)
}
