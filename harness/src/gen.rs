//! Generators (proptest strategies). Construction rather than rejection
//! wherever the code under test imposes structure; every random choice goes
//! through proptest so that cases shrink and replay.

use maybenot::constants::{STATE_END, STATE_SIGNAL};
use proptest::prelude::*;
use proptest::sample::select;

use crate::spec::*;

pub const DAY_US: f64 = 86_400_000_000.0;

#[derive(Clone, Copy, Debug, PartialEq, Eq)]
pub enum DistProfile {
    /// constants only (no randomness consumed)
    Const,
    /// microsecond-to-millisecond scale, for the simulator
    Light,
    /// every valid family at every corner admitted by validation
    Wild,
    /// unbounded / heavy-tailed / enormous values (clamping, C04)
    Huge,
    /// constants on a coarse millisecond grid, so that expiries, firings and events coincide
    Grid,
}

#[derive(Clone, Copy, Debug, PartialEq, Eq)]
pub enum DistUse {
    Timeout,
    Duration,
    Limit,
    CounterValue,
}

fn next_up(x: f64) -> f64 {
    if x.is_nan() || x == f64::INFINITY {
        return x;
    }
    if x == 0.0 {
        return f64::from_bits(1);
    }
    let b = x.to_bits();
    if x > 0.0 {
        f64::from_bits(b + 1)
    } else {
        f64::from_bits(b - 1)
    }
}

fn next_down(x: f64) -> f64 {
    -next_up(-x)
}

/// Ordinary positive magnitudes, log-uniform over 10^-6 .. 10^12.
fn ordinary() -> BoxedStrategy<f64> {
    (-6.0f64..12.0, 1.0f64..10.0)
        .prop_map(|(e, m)| m * 10f64.powf(e.floor()))
        .boxed()
}

/// Corner values of f64 (valid or not depending on where they are used).
pub fn corner_pool() -> Vec<f64> {
    vec![
        0.0,
        -0.0,
        f64::from_bits(1),
        f64::MIN_POSITIVE,
        1e-300,
        next_down(1e-9),
        1e-9,
        next_up(1e-9),
        1e-6,
        0.5,
        next_down(1.0),
        1.0,
        next_up(1.0),
        2.0,
        10.0,
        1000.0,
        1e6,
        1e9,
        DAY_US,
        next_up(DAY_US),
        1e19,
        1.8446744073709552e19,
        3.7e19,
        1e42,
        next_up(1e42),
        1e300,
        f64::MAX,
        f64::INFINITY,
        f64::NEG_INFINITY,
        f64::NAN,
        -f64::NAN,
        f64::from_bits(0x7ff0_0000_0000_0001),
        -1.0,
        -1e-9,
        -f64::MAX,
    ]
}

pub fn any_f64() -> BoxedStrategy<f64> {
    prop_oneof![
        3 => select(corner_pool()),
        2 => ordinary(),
        1 => ordinary().prop_map(|x| -x),
        1 => any::<u64>().prop_map(f64::from_bits),
    ]
    .boxed()
}

/// finite, non-negative values incl. corners
fn pos_finite() -> BoxedStrategy<f64> {
    prop_oneof![
        3 => select(vec![0.0, f64::from_bits(1), f64::MIN_POSITIVE, 1e-300, 1e-9, 0.5, 1.0, 2.0, 10.0, 1000.0, 1e6, 1e9, DAY_US, 1e19, 1e42, 1e300, f64::MAX]),
        3 => ordinary(),
    ]
    .boxed()
}

fn strictly_pos_finite() -> BoxedStrategy<f64> {
    pos_finite()
        .prop_map(|x| if x > 0.0 { x } else { f64::from_bits(1) })
        .boxed()
}

fn finite_any_sign() -> BoxedStrategy<f64> {
    prop_oneof![
        3 => pos_finite(),
        1 => pos_finite().prop_map(|x| -x),
    ]
    .boxed()
}

fn probability() -> BoxedStrategy<f64> {
    prop_oneof![
        3 => select(vec![0.0, 1e-9, next_up(1e-9), 1e-6, 0.01, 0.5, 2.0/3.0, next_down(1.0), 1.0 - 1e-9, 1.0]),
        2 => (0.0f64..1.0).boxed(),
    ]
    .boxed()
}

fn start_max_wild() -> BoxedStrategy<(f64, f64)> {
    let s = prop_oneof![
        6 => Just(0.0),
        2 => ordinary(),
        1 => select(vec![-0.0, -1.0, -1e9, 1e300, f64::MAX, f64::INFINITY, f64::NEG_INFINITY, f64::NAN]),
    ];
    let m = prop_oneof![
        5 => Just(0.0),
        3 => ordinary(),
        1 => select(vec![-0.0, -1.0, f64::from_bits(1), 1.0, DAY_US, 1e300, f64::MAX, f64::INFINITY, f64::NEG_INFINITY, f64::NAN]),
    ];
    (s, m).boxed()
}

/// All 11 families, parameters drawn so that `Dist::validate` accepts (the
/// residue is filtered; acceptance is measured by the callers).
pub fn wild_kind() -> BoxedStrategy<DistKind> {
    prop_oneof![
        // Uniform: finite, ordered, finite range
        (finite_any_sign(), pos_finite()).prop_map(|(low, w)| {
            let mut high = low + w;
            if !high.is_finite() {
                high = low;
            }
            DistKind::Uniform { low: Fx(low), high: Fx(high) }
        }),
        (any_f64(), finite_any_sign())
            .prop_map(|(mean, stdev)| DistKind::Normal { mean: Fx(mean), stdev: Fx(stdev) }),
        (any_f64(), strictly_pos_finite(), finite_any_sign()).prop_map(|(l, sc, sh)| {
            DistKind::SkewNormal { location: Fx(l), scale: Fx(sc), shape: Fx(sh) }
        }),
        (any_f64(), finite_any_sign())
            .prop_map(|(mu, sigma)| DistKind::LogNormal { mu: Fx(mu), sigma: Fx(sigma) }),
        (
            prop_oneof![
                select(vec![0u64, 1, 2, 10, 1000, 1_000_000, 999_999_999, 1_000_000_000]),
                0u64..=1_000_000_000
            ],
            probability()
        )
            .prop_map(|(trials, p)| DistKind::Binomial { trials, probability: Fx(p) }),
        probability().prop_map(|p| DistKind::Geometric { probability: Fx(p) }),
        (strictly_pos_finite(), strictly_pos_finite())
            .prop_map(|(scale, shape)| DistKind::Pareto { scale: Fx(scale), shape: Fx(shape) }),
        prop_oneof![
            select(vec![f64::from_bits(1), 1e-9, 0.5, 1.0, 11.9, 12.0, 12.1, 1000.0, 1e9, 1e19, 1e42]),
            ordinary()
        ]
        .prop_map(|lambda| DistKind::Poisson { lambda: Fx(lambda) }),
        (strictly_pos_finite(), strictly_pos_finite())
            .prop_map(|(scale, shape)| DistKind::Weibull { scale: Fx(scale), shape: Fx(shape) }),
        (strictly_pos_finite(), strictly_pos_finite())
            .prop_map(|(scale, shape)| DistKind::Gamma { scale: Fx(scale), shape: Fx(shape) }),
        (strictly_pos_finite(), strictly_pos_finite())
            .prop_map(|(alpha, beta)| DistKind::Beta { alpha: Fx(alpha), beta: Fx(beta) }),
    ]
    .boxed()
}

/// Mostly valid distributions, plus values just beyond and far beyond each bound that
/// validation imposes for performance reasons (rejected on the pinned tree; a weakened bound
/// lets them through). NOT filtered: the consumer calls `validate` itself, under its watchdog.
pub fn candidate_dist() -> BoxedStrategy<DistSpec> {
    let beyond = prop_oneof![
        select(vec![9.99e-10, 1e-12, 1e-100, 1e-300, 5e-324])
            .prop_map(|p| DistKind::Geometric { probability: Fx(p) }),
        (select(vec![1u64, 1000, 1_000_000_000]), select(vec![9.99e-10, 1e-12, 1e-100, 1e-300]))
            .prop_map(|(trials, p)| DistKind::Binomial { trials, probability: Fx(p) }),
        (select(vec![1_000_000_001u64, 1_000_000_000_000, u64::MAX]), select(vec![0.5, 1e-9, 0.999]))
            .prop_map(|(trials, p)| DistKind::Binomial { trials, probability: Fx(p) }),
        select(vec![1.0000000000000002e42, 1e43, 1e100, 1e300, f64::MAX]).prop_map(|l| DistKind::Poisson { lambda: Fx(l) }),
    ];
    // plus anything at all (NaN / infinite / negative parameters): validation must reject what it cannot sample
    let anything = any_dist().prop_map(|d| d.kind);
    let kind = prop_oneof![12 => wild_kind(), 1 => beyond, 2 => anything];
    (kind, start_max_wild())
        .prop_map(|(kind, (s, m))| DistSpec { kind, start: Fx(s), max: Fx(m) })
        .boxed()
}

/// A distribution accepted by `Dist::validate`, all families, all corners.
pub fn valid_dist() -> BoxedStrategy<DistSpec> {
    (wild_kind(), start_max_wild())
        .prop_map(|(kind, (s, m))| DistSpec { kind, start: Fx(s), max: Fx(m) })
        .prop_filter("Dist::validate rejects", |d| d.to_dist().validate().is_ok())
        .boxed()
}

/// Any distribution, valid or not (C12).
pub fn any_dist() -> BoxedStrategy<DistSpec> {
    let kind = prop_oneof![
        4 => wild_kind(),
        1 => (any_f64(), any_f64()).prop_map(|(a, b)| DistKind::Uniform { low: Fx(a), high: Fx(b) }),
        1 => (any_f64(), any_f64()).prop_map(|(a, b)| DistKind::Normal { mean: Fx(a), stdev: Fx(b) }),
        1 => (any_f64(), any_f64(), any_f64()).prop_map(|(a, b, c)| DistKind::SkewNormal { location: Fx(a), scale: Fx(b), shape: Fx(c) }),
        1 => (any_f64(), any_f64()).prop_map(|(a, b)| DistKind::LogNormal { mu: Fx(a), sigma: Fx(b) }),
        1 => (any::<u64>(), any_f64()).prop_map(|(t, p)| DistKind::Binomial { trials: t, probability: Fx(p) }),
        1 => any_f64().prop_map(|p| DistKind::Geometric { probability: Fx(p) }),
        1 => (any_f64(), any_f64()).prop_map(|(a, b)| DistKind::Pareto { scale: Fx(a), shape: Fx(b) }),
        1 => any_f64().prop_map(|l| DistKind::Poisson { lambda: Fx(l) }),
        1 => (any_f64(), any_f64()).prop_map(|(a, b)| DistKind::Weibull { scale: Fx(a), shape: Fx(b) }),
        1 => (any_f64(), any_f64()).prop_map(|(a, b)| DistKind::Gamma { scale: Fx(a), shape: Fx(b) }),
        1 => (any_f64(), any_f64()).prop_map(|(a, b)| DistKind::Beta { alpha: Fx(a), beta: Fx(b) }),
    ];
    (kind, start_max_wild())
        .prop_map(|(kind, (s, m))| DistSpec { kind, start: Fx(s), max: Fx(m) })
        .boxed()
}

fn const_values(u: DistUse) -> Vec<f64> {
    match u {
        DistUse::Timeout => vec![0.0, 0.0, 1.0, 2.0, 10.0, 1000.0, 1e6, DAY_US, 2.0 * DAY_US, 1e30],
        DistUse::Duration => vec![0.0, 1.0, 1.0, 5.0, 10.0, 1000.0, 1e6, DAY_US, 2.0 * DAY_US, 1e30],
        DistUse::Limit => vec![0.0, 1.0, 1.0, 2.0, 2.0, 3.0, 4.0, 5.0, 0.4, 1.5],
        DistUse::CounterValue => vec![
            0.0,
            1.0,
            2.0,
            3.0,
            5.0,
            1.9,
            1000.0,
            1.8446744073709550e19, // u64::MAX - 2047 (largest f64 below 2^64)
            1.8446744073709552e19, // 2^64 -> saturates to u64::MAX
            1e30,
        ],
    }
}

/// light-weight distributions for the simulator: values in 0..=max_us
pub fn light_dist(u: DistUse, allow_zero: bool) -> BoxedStrategy<DistSpec> {
    let lo_min = if allow_zero { 0.0 } else { 1.0 };
    match u {
        DistUse::Limit => prop_oneof![
            3 => select(vec![1.0, 2.0, 3.0, 5.0, 0.0]).prop_map(DistSpec::constant),
            1 => (1.0f64..4.0, 0.0f64..4.0).prop_map(|(l, w)| DistSpec {
                kind: DistKind::Uniform { low: Fx(l), high: Fx(l + w) },
                start: Fx(0.0),
                max: Fx(0.0),
            }),
        ]
        .boxed(),
        DistUse::CounterValue => select(vec![1.0, 2.0, 3.0, 5.0])
            .prop_map(DistSpec::constant)
            .boxed(),
        _ => prop_oneof![
            4 => select(vec![lo_min, 1.0, 10.0, 100.0, 1000.0, 5000.0, 20_000.0, 100_000.0])
                .prop_map(DistSpec::constant),
            3 => (lo_min..30_000.0f64, 0.0f64..30_000.0).prop_map(|(l, w)| DistSpec {
                kind: DistKind::Uniform { low: Fx(l.round()), high: Fx((l + w).round()) },
                start: Fx(0.0),
                max: Fx(0.0),
            }),
            1 => (100.0f64..20_000.0, 0.0f64..5_000.0).prop_map(move |(m, s)| DistSpec {
                kind: DistKind::Normal { mean: Fx(m), stdev: Fx(s) },
                start: Fx(lo_min),
                max: Fx(100_000.0),
            }),
            1 => (1.0f64..10.0, 0.5f64..3.0).prop_map(move |(sc, sh)| DistSpec {
                kind: DistKind::Pareto { scale: Fx(sc), shape: Fx(sh) },
                start: Fx(lo_min),
                max: Fx(50_000.0),
            }),
            1 => (0.001f64..0.5).prop_map(move |p| DistSpec {
                kind: DistKind::Geometric { probability: Fx(p) },
                start: Fx(lo_min),
                max: Fx(50_000.0),
            }),
            // an offset beyond the clamp (start > max > 0): every sample is the maximum
            1 => (0.0f64..2_000.0, 1.0f64..20_000.0, 1.0f64..40_000.0).prop_map(|(w, max, over)| DistSpec {
                kind: DistKind::Uniform { low: Fx(0.0), high: Fx(w.round()) },
                start: Fx((max + over).round()),
                max: Fx(max.round()),
            }),
        ]
        .boxed(),
    }
}

pub fn dist(profile: DistProfile, u: DistUse) -> BoxedStrategy<DistSpec> {
    match profile {
        DistProfile::Const => match u {
            // a constant with an offset (`start`) and/or a clamp (`max`) is still a constant
            DistUse::CounterValue | DistUse::Limit => prop_oneof![
                5 => select(const_values(u)).prop_map(DistSpec::constant),
                1 => (prop_oneof![6 => select(const_values(u)), 2 => select(vec![-10.0, -3.0, -1.0]), 1 => Just(f64::MAX)], prop_oneof![8 => select(vec![1.0, 2.0, 5.0, 12.0]), 1 => Just(f64::MAX)], select(vec![0.0, 0.0, 1.0, 3.0, 6.0])).prop_map(|(v, start, max)| {
                    let mut d = DistSpec::constant(v);
                    d.start = Fx(start);
                    d.max = Fx(max);
                    d
                }),
            ]
            .boxed(),
            _ => select(const_values(u)).prop_map(DistSpec::constant).boxed(),
        },
        DistProfile::Light => light_dist(u, true),
        DistProfile::Wild => prop_oneof![
            2 => select(const_values(u)).prop_map(DistSpec::constant),
            3 => valid_dist(),
        ]
        .boxed(),
        DistProfile::Huge => huge_dist(),
        DistProfile::Grid => match u {
            DistUse::Limit => select(vec![1.0, 2.0, 3.0, 0.0]).prop_map(DistSpec::constant).boxed(),
            DistUse::CounterValue => select(vec![1.0, 2.0, 3.0]).prop_map(DistSpec::constant).boxed(),
            _ => select(vec![0.0, 1000.0, 1000.0, 2000.0, 3000.0, 4000.0, 5000.0, 10000.0])
                .prop_map(DistSpec::constant)
                .boxed(),
        },
    }
}

/// heavy tails, enormous scales, infinite starts, values straddling 24 h
pub fn huge_dist() -> BoxedStrategy<DistSpec> {
    let mk = |kind: DistKind, start: f64, max: f64| DistSpec { kind, start: Fx(start), max: Fx(max) };
    prop_oneof![
        2 => select(vec![DAY_US - 1.0, DAY_US, DAY_US + 1.0, 2.0 * DAY_US, 1e30, 1e300, f64::MAX, 0.0, 7.0])
            .prop_map(DistSpec::constant),
        1 => Just(mk(DistKind::Uniform { low: Fx(0.0), high: Fx(0.0) }, f64::INFINITY, 0.0)),
        1 => Just(mk(DistKind::Uniform { low: Fx(0.0), high: Fx(f64::MAX) }, 0.0, 0.0)),
        2 => (0.9f64..1.0, 1.0f64..1.2).prop_map(move |(a, b)| mk(
            DistKind::Uniform { low: Fx(DAY_US * a), high: Fx(DAY_US * b) }, 0.0, 0.0)),
        2 => (1e-3f64..0.3).prop_map(move |sh| mk(DistKind::Pareto { scale: Fx(1.0), shape: Fx(sh) }, 0.0, 0.0)),
        2 => (0.0f64..60.0, 1.0f64..20.0).prop_map(move |(mu, s)| mk(DistKind::LogNormal { mu: Fx(mu), sigma: Fx(s) }, 0.0, 0.0)),
        1 => Just(mk(DistKind::Normal { mean: Fx(1e300), stdev: Fx(1e299) }, 0.0, 0.0)),
        1 => Just(mk(DistKind::Poisson { lambda: Fx(1e42) }, 0.0, 0.0)),
        1 => Just(mk(DistKind::Geometric { probability: Fx(1e-9) }, 0.0, 0.0)),
        1 => Just(mk(DistKind::Geometric { probability: Fx(0.0) }, 0.0, 0.0)),
        1 => (1e-3f64..0.2).prop_map(move |sh| mk(DistKind::Weibull { scale: Fx(1e9), shape: Fx(sh) }, 0.0, 0.0)),
        1 => Just(mk(DistKind::Gamma { scale: Fx(1e300), shape: Fx(10.0) }, 0.0, 0.0)),
        1 => (1.0f64..1e12).prop_map(move |m| mk(DistKind::Uniform { low: Fx(0.0), high: Fx(f64::MAX) }, 0.0, m)),
        1 => Just(mk(DistKind::Uniform { low: Fx(5.0), high: Fx(5.0) }, 0.0, f64::INFINITY)),
    ]
    .boxed()
}

/// `proptest::option::weighted` that also accepts the probabilities 0 and 1.
pub fn opt_w<T: std::fmt::Debug + Clone + 'static>(p: f64, s: impl Strategy<Value = T> + 'static) -> BoxedStrategy<Option<T>> {
    if p <= 0.0 {
        Just(None).boxed()
    } else if p >= 1.0 {
        s.prop_map(Some).boxed()
    } else {
        proptest::option::weighted(p, s).boxed()
    }
}

/// Parameters of the machine generator.
#[derive(Clone, Debug)]
pub struct MachineParams {
    pub min_states: usize,
    pub max_states: usize,
    pub dist: DistProfile,
    /// allow zero durations in the Light profile (zero timeouts are always generated)
    pub light_zero: bool,
    pub p_action: f64,
    /// weights of [Cancel, SendPadding, BlockOutgoing, UpdateTimer]
    pub kind_weights: [u32; 4],
    pub p_limit: f64,
    pub p_counter: f64,
    /// probability that an event has a transition list, per event index
    pub p_trans: [f64; 13],
    /// weights of a regular state / END / SIGNAL as a transition target
    pub w_regular: u32,
    pub w_end: u32,
    pub w_signal: u32,
    /// 0: mixed, 1: probability-1 transitions only, 2: dyadic (multiples of 1/4)
    pub prob_style: u8,
    pub budgets: BudgetProfile,
}

#[derive(Clone, Copy, Debug, PartialEq, Eq)]
pub enum BudgetProfile {
    /// everything: 0, small, huge allowed budgets; fractions from corners and random
    Any,
    /// generous: no limit ever bites
    Unlimited,
}

impl Default for MachineParams {
    fn default() -> Self {
        MachineParams {
            min_states: 1,
            max_states: 6,
            dist: DistProfile::Const,
            light_zero: true,
            p_action: 0.7,
            kind_weights: [1, 3, 3, 2],
            p_limit: 0.4,
            p_counter: 0.3,
            p_trans: [0.4; 13],
            w_regular: 8,
            w_end: 1,
            w_signal: 1,
            prob_style: 0,
            budgets: BudgetProfile::Any,
        }
    }
}

fn fraction() -> BoxedStrategy<f64> {
    prop_oneof![
        4 => Just(0.0),
        3 => select(vec![0.125, 0.25, 0.5, 0.75, 1.0, f64::from_bits(1), -0.0, 1e-9, next_down(1.0)]),
        // decimal limits (not representable exactly; a count ratio such as 7/10 lands exactly on them)
        2 => select(vec![0.1, 0.2, 0.3, 0.35, 0.4, 0.6, 0.7, 0.8, 0.9, 0.95, 0.12, 0.24, 0.48, 0.05]),
        3 => (0.0f64..=1.0).boxed(),
    ]
    .boxed()
}

fn allowed_budget() -> BoxedStrategy<u64> {
    prop_oneof![
        4 => Just(0u64),
        2 => Just(1u64),
        3 => 2u64..20,
        1 => 20u64..100_000,
        1 => select(vec![u64::MAX, u64::MAX - 1, 1u64 << 40]),
    ]
    .boxed()
}

fn action_spec(p: &MachineParams) -> BoxedStrategy<ActionSpec> {
    let prof = p.dist;
    let lz = p.light_zero;
    let d = move |u: DistUse| -> BoxedStrategy<DistSpec> {
        if prof == DistProfile::Light {
            // zero timeouts are always generated; zero durations only when asked for
            light_dist(u, lz || u == DistUse::Timeout)
        } else {
            dist(prof, u)
        }
    };
    let limit = {
        let l = d(DistUse::Limit);
        opt_w(p.p_limit, l).boxed()
    };
    let w = p.kind_weights;
    let mut arms: Vec<(u32, BoxedStrategy<ActionSpec>)> = vec![];
    if w[0] > 0 {
        arms.push((w[0], (0u8..3).prop_map(|timer| ActionSpec::Cancel { timer }).boxed()));
    }
    if w[1] > 0 {
        arms.push((
            w[1],
            (any::<bool>(), any::<bool>(), d(DistUse::Timeout), limit.clone())
                .prop_map(|(bypass, replace, timeout, limit)| ActionSpec::Pad {
                    bypass,
                    replace,
                    timeout,
                    limit,
                })
                .boxed(),
        ));
    }
    if w[2] > 0 {
        arms.push((
            w[2],
            (
                any::<bool>(),
                any::<bool>(),
                d(DistUse::Timeout),
                d(DistUse::Duration),
                limit.clone(),
            )
                .prop_map(|(bypass, replace, timeout, duration, limit)| ActionSpec::Block {
                    bypass,
                    replace,
                    timeout,
                    duration,
                    limit,
                })
                .boxed(),
        ));
    }
    if w[3] > 0 {
        arms.push((
            w[3],
            (any::<bool>(), d(DistUse::Duration), limit)
                .prop_map(|(replace, duration, limit)| ActionSpec::Timer {
                    replace,
                    duration,
                    limit,
                })
                .boxed(),
        ));
    }
    proptest::strategy::Union::new_weighted(arms).boxed()
}

fn counter_spec(p: &MachineParams) -> BoxedStrategy<CounterSpec> {
    let prof = p.dist;
    let d = if prof == DistProfile::Light {
        light_dist(DistUse::CounterValue, true)
    } else {
        dist(prof, DistUse::CounterValue)
    };
    (0u8..3, 0u8..5, d)
        .prop_map(|(op, mode, dist)| match mode {
            0 | 1 => CounterSpec { op, dist: None, copy: false },
            2 => CounterSpec { op, dist: Some(dist), copy: false },
            3 => CounterSpec { op, dist: None, copy: true },
            // copy supersedes the distribution (only a struct literal or a decoder produces this)
            _ => CounterSpec { op, dist: Some(dist), copy: true },
        })
        .boxed()
}

/// Turn integer weights into f32 probabilities whose f32 running sum (the sum
/// `State::validate` computes) is at most 1.
pub fn probs_from_weights(weights: &[u32], residual: u32) -> Vec<f32> {
    let total: u32 = weights.iter().sum::<u32>() + residual;
    let mut ps: Vec<f32> = weights.iter().map(|w| *w as f32 / total as f32).collect();
    loop {
        let mut sum = 0.0f32;
        for p in &ps {
            sum += *p;
        }
        if sum <= 1.0 {
            break;
        }
        // shave one ulp off the largest entry
        let i = ps
            .iter()
            .enumerate()
            .max_by(|a, b| a.1.partial_cmp(b.1).unwrap())
            .map(|x| x.0)
            .unwrap();
        ps[i] = f32::from_bits(ps[i].to_bits() - 1);
    }
    ps
}

/// A transition list before the number of states is known: regular targets are 16-bit
/// selectors that are mapped monotonically onto 0..n when the machine is assembled (no
/// flat_map: better shrinking, and byte-driven generation does not fork its stream).
#[derive(Clone, Debug)]
pub struct RawList {
    /// (target selector: 0..=0xffff regular, SEL_END, SEL_SIGNAL; weight)
    raw: Vec<(u32, u32)>,
    residual: u32,
    sel: u8,
}

const SEL_END: u32 = 1 << 20;
const SEL_SIGNAL: u32 = 1 << 21;

fn raw_trans_list(p: &MachineParams) -> BoxedStrategy<RawList> {
    let (wr, we, ws) = (p.w_regular, p.w_end, p.w_signal);
    let target = {
        let mut arms: Vec<(u32, BoxedStrategy<u32>)> = vec![(wr.max(1), any::<u16>().prop_map(|x| x as u32).boxed())];
        if we > 0 {
            arms.push((we, Just(SEL_END).boxed()));
        }
        if ws > 0 {
            arms.push((ws, Just(SEL_SIGNAL).boxed()));
        }
        proptest::strategy::Union::new_weighted(arms)
    };
    (
        proptest::collection::vec((target, 1u32..=8), 1..=4),
        prop_oneof![3 => Just(0u32), 2 => 1u32..=8],
        0u8..10,
    )
        .prop_map(|(raw, residual, sel)| RawList { raw, residual, sel })
        .boxed()
}

/// Resolve a raw list for a machine with `n` regular states.
pub fn resolve_list(l: &RawList, n: usize, style: u8) -> Vec<(usize, Fs)> {
    // distinct targets, first occurrence wins
    let mut targets: Vec<usize> = vec![];
    let mut weights: Vec<u32> = vec![];
    for (t, w) in &l.raw {
        let t = match *t {
            SEL_END => STATE_END,
            SEL_SIGNAL => STATE_SIGNAL,
            x => pick(x as u16, n),
        };
        if !targets.contains(&t) {
            targets.push(t);
            weights.push(*w);
        }
    }
    let (residual, sel) = (l.residual, l.sel);
    match style {
        1 => vec![(targets[0], Fs(1.0))],
        2 => {
            // multiples of 1/4: up to four quarters shared among targets
            let k = targets.len().min(4);
            let mut q = vec![1u32; k];
            let mut left = 4 - k as u32;
            let keep_residual = residual % 2 == 1 && left > 0;
            if keep_residual {
                left -= 1;
            }
            let mut i = 0;
            while left > 0 {
                q[(i + sel as usize) % k] += 1;
                left -= 1;
                i += 1;
            }
            targets.into_iter().take(k).zip(q).map(|(t, q)| (t, Fs(q as f32 * 0.25))).collect()
        }
        _ => {
            if sel < 3 {
                // a single certain transition
                vec![(targets[0], Fs(1.0))]
            } else {
                let ps = probs_from_weights(&weights, residual);
                targets.into_iter().zip(ps).map(|(t, p)| (t, Fs(p))).collect()
            }
        }
    }
}

/// A transition list for a machine with `n` regular states.
pub fn trans_list(n: usize, p: &MachineParams) -> BoxedStrategy<Vec<(usize, Fs)>> {
    let style = p.prob_style;
    raw_trans_list(p).prop_map(move |l| resolve_list(&l, n, style)).boxed()
}

#[derive(Clone, Debug)]
pub struct RawState {
    action: Option<ActionSpec>,
    counter_a: Option<CounterSpec>,
    counter_b: Option<CounterSpec>,
    lists: Vec<Option<RawList>>,
}

fn raw_state(p: &MachineParams) -> BoxedStrategy<RawState> {
    let action = opt_w(p.p_action, action_spec(p));
    let ca = opt_w(p.p_counter, counter_spec(p));
    let cb = opt_w(p.p_counter, counter_spec(p));
    let mut per_event: Vec<BoxedStrategy<Option<RawList>>> = vec![];
    for e in 0..13 {
        per_event.push(opt_w(p.p_trans[e], raw_trans_list(p)).boxed());
    }
    (action, ca, cb, per_event)
        .prop_map(|(action, counter_a, counter_b, lists)| RawState { action, counter_a, counter_b, lists })
        .boxed()
}

fn resolve_state(r: &RawState, n: usize, style: u8) -> StateSpec {
    StateSpec {
        action: r.action,
        counter_a: r.counter_a,
        counter_b: r.counter_b,
        trans: r
            .lists
            .iter()
            .enumerate()
            .filter_map(|(e, l)| l.as_ref().map(|l| (e as u8, resolve_list(l, n, style))))
            .collect(),
    }
}

pub fn state_spec(n: usize, p: &MachineParams) -> BoxedStrategy<StateSpec> {
    let style = p.prob_style;
    raw_state(p).prop_map(move |r| resolve_state(&r, n, style)).boxed()
}

pub fn machine(p: &MachineParams) -> BoxedStrategy<MachineSpec> {
    let style = p.prob_style;
    let b = match p.budgets {
        BudgetProfile::Any => (allowed_budget(), fraction(), allowed_budget(), fraction()).boxed(),
        BudgetProfile::Unlimited => (Just(u64::MAX), Just(0.0), Just(u64::MAX), Just(0.0)).boxed(),
    };
    // the number of states is the length of the vector: no dependent generation needed
    let states = proptest::collection::vec(raw_state(p), p.min_states.max(1)..=p.max_states.max(1));
    (b, states)
        .prop_map(move |((app, mpf, abm, mbf), raw)| {
            let n = raw.len();
            MachineSpec {
                allowed_padding_packets: app,
                max_padding_frac: Fx(mpf),
                allowed_blocked_microsec: abm,
                max_blocking_frac: Fx(mbf),
                states: raw.iter().map(|r| resolve_state(r, n, style)).collect(),
            }
        })
        .boxed()
}

// ---------------------------------------------------------------------------
// histories

#[derive(Clone, Debug)]
pub struct HistParams {
    pub min_calls: usize,
    pub max_calls: usize,
    /// batch sizes are drawn from 0..=max_batch (1..=1 when single is set)
    pub max_batch: usize,
    pub single: bool,
    /// weights of the 10 external event kinds, in `Ev` declaration order
    pub ev_weights: [u32; 10],
    /// weight of ids naming machines that do not exist
    pub w_unknown_id: u32,
    pub clock: ClockProfile,
}

#[derive(Clone, Copy, Debug, PartialEq, Eq)]
pub enum ClockProfile {
    /// zero, tiny, small, large, huge, backwards, jumps
    Wild,
    /// non-decreasing, small steps
    Monotone,
}

impl Default for HistParams {
    fn default() -> Self {
        HistParams {
            min_calls: 1,
            max_calls: 40,
            max_batch: 6,
            single: false,
            ev_weights: [2, 2, 2, 3, 4, 2, 4, 3, 4, 3],
            w_unknown_id: 2,
            clock: ClockProfile::Wild,
        }
    }
}

pub fn machine_id(n: usize, w_unknown: u32) -> BoxedStrategy<usize> {
    let unknown = select(vec![
        n,
        n + 1,
        usize::MAX,
        usize::MAX - 1,
        STATE_END,
        STATE_SIGNAL,
        1usize << 32,
    ]);
    if n == 0 {
        return unknown.boxed();
    }
    // ids that alias a running machine once truncated to a narrower integer
    let aliasing = (0..n, select(vec![8u32, 16, 31, 32, 48, 63])).prop_map(|(k, bits)| (1usize << bits).wrapping_add(k));
    let unknown = prop_oneof![3 => unknown, 1 => aliasing.prop_filter("must be unknown", move |id| *id >= n)];
    if w_unknown == 0 {
        return (0..n).boxed();
    }
    prop_oneof![
        10 => (0..n).boxed(),
        w_unknown => unknown.boxed(),
    ]
    .boxed()
}

pub fn event(n: usize, p: &HistParams) -> BoxedStrategy<Ev> {
    let w = p.ev_weights;
    let id = machine_id(n, p.w_unknown_id);
    let mut arms: Vec<(u32, BoxedStrategy<Ev>)> = vec![];
    let simple = [
        (0, Ev::NormalRecv),
        (1, Ev::PaddingRecv),
        (2, Ev::TunnelRecv),
        (3, Ev::NormalSent),
        (5, Ev::TunnelSent),
        (7, Ev::BlockingEnd),
    ];
    for (i, e) in simple {
        if w[i] > 0 {
            arms.push((w[i], Just(e).boxed()));
        }
    }
    if w[4] > 0 {
        arms.push((w[4], id.clone().prop_map(Ev::PaddingSent).boxed()));
    }
    if w[6] > 0 {
        arms.push((w[6], id.clone().prop_map(Ev::BlockingBegin).boxed()));
    }
    if w[8] > 0 {
        arms.push((w[8], id.clone().prop_map(Ev::TimerBegin).boxed()));
    }
    if w[9] > 0 {
        arms.push((w[9], id.prop_map(Ev::TimerEnd).boxed()));
    }
    proptest::strategy::Union::new_weighted(arms).boxed()
}

pub fn clock(p: ClockProfile) -> BoxedStrategy<Clock> {
    match p {
        ClockProfile::Monotone => prop_oneof![
            2 => Just(Clock::Add(0)),
            2 => Just(Clock::Add(1)),
            5 => (1u64..5000).prop_map(Clock::Add),
            1 => (5000u64..10_000_000).prop_map(Clock::Add),
        ]
        .boxed(),
        ClockProfile::Wild => prop_oneof![
            6 => Just(Clock::Add(0)),
            4 => Just(Clock::Add(1)),
            8 => (1u64..2000).prop_map(Clock::Add),
            4 => (2000u64..100_000_000).prop_map(Clock::Add),
            1 => ((1u64 << 40)..(1u64 << 62)).prop_map(Clock::Add),
            2 => (1u64..2000).prop_map(Clock::Sub),
            1 => ((1u64 << 30)..(1u64 << 62)).prop_map(Clock::Sub),
            1 => select(vec![Clock::Set(0), Clock::Set(u64::MAX), Clock::Set(1u64 << 63)]),
        ]
        .boxed(),
    }
}

pub fn start_time(p: ClockProfile) -> BoxedStrategy<u64> {
    match p {
        ClockProfile::Monotone => select(vec![0u64, 1, 1_000_000, 1u64 << 40]).boxed(),
        ClockProfile::Wild => prop_oneof![
            3 => select(vec![0u64, 1, 1000, 1_000_000, 1u64 << 40, u64::MAX / 2, u64::MAX - 1000, u64::MAX]),
            1 => any::<u64>(),
        ]
        .boxed(),
    }
}

pub fn calls(n: usize, p: &HistParams) -> BoxedStrategy<Vec<Call>> {
    let batch = if p.single {
        proptest::collection::vec(event(n, p), 1..=1).boxed()
    } else {
        // mostly short batches, sometimes long
        let e = event(n, p);
        let maxb = p.max_batch;
        prop_oneof![
            6 => proptest::collection::vec(e.clone(), 1..=1),
            3 => proptest::collection::vec(e.clone(), 0..=3.min(maxb)),
            2 => proptest::collection::vec(e, 0..=maxb),
        ]
        .boxed()
    };
    let call = (clock(p.clock), batch).prop_map(|(clock, events)| Call { clock, events });
    proptest::collection::vec(call, p.min_calls..=p.max_calls).boxed()
}

/// script words for draws
pub fn words(max: usize) -> BoxedStrategy<Vec<u64>> {
    let w = prop_oneof![
        2 => select(vec![0u64, !0u64, 0x5555_5555_5555_5555, 0xAAAA_AAAA_AAAA_AAAA, 1, 1u64 << 63, 1u64 << 32, (1u64 << 32) - 1, 0x7FFF_FFFF_FFFF_FFFF, 0xFFFF_FE00_0000_0000, 0x0000_0200_0000_0000]),
        2 => any::<u64>(),
        // draws at exact quarters and their neighbours (dyadic thresholds)
        1 => (0u32..=4, -1i64..=1).prop_map(|(q, d)| {
            let k = ((q as i64) * 2_097_152 + d).clamp(0, 8_388_607) as u32;
            crate::rng::word_for_k(k)
        }),
    ];
    proptest::collection::vec(w, 0..=max).boxed()
}

/// A full framework case.
pub fn fw_case(
    n_machines: std::ops::RangeInclusive<usize>,
    mp: &MachineParams,
    hp: &HistParams,
    framework_fracs: bool,
    max_words: usize,
) -> BoxedStrategy<FwCase> {
    let mp = mp.clone();
    let hp = hp.clone();
    let fr = if framework_fracs {
        (fraction(), fraction()).boxed()
    } else {
        (Just(0.0), Just(0.0)).boxed()
    };
    n_machines
        .prop_flat_map(move |n| {
            (
                proptest::collection::vec(machine(&mp), n..=n),
                fr.clone(),
                start_time(hp.clock),
                words(max_words),
                any::<u64>(),
                calls(n, &hp),
            )
        })
        .prop_map(|(machines, (pf, bf), start, words, seed, calls)| FwCase {
            machines,
            max_padding_frac: Fx(pf),
            max_blocking_frac: Fx(bf),
            start,
            words,
            seed,
            calls,
        })
        .boxed()
}

/// Map a generated u16 monotonically onto 0..len (shrinks towards 0).
pub fn pick(i: u16, len: usize) -> usize {
    if len == 0 {
        0
    } else {
        ((i as usize) * len) >> 16
    }
}
