//! Scripted random source: a prefix of explicit 64-bit words followed by a
//! seeded Xoshiro256** stream. `next_u32` consumes one entry and returns its
//! upper 32 bits (the convention Xoshiro256** itself uses), so a transition
//! draw fed the entry `w` sees `r = ((w >> 32) >> 9) * 2^-23`.

use rand_core::{RngCore, SeedableRng};
use rand_xoshiro::Xoshiro256StarStar;

/// Panic payload used when the word budget is exceeded (a sampler is looping).
#[derive(Debug, Clone, Copy)]
pub struct RngBudgetExceeded(pub u64);

#[derive(Clone, Debug)]
pub struct ScriptRng {
    prefix: Vec<u64>,
    pos: usize,
    tail: Xoshiro256StarStar,
    /// number of 64-bit entries handed out so far
    pub words: u64,
    /// when set, exceeding it unwinds with `RngBudgetExceeded`
    pub budget: Option<u64>,
}

impl ScriptRng {
    pub fn new(prefix: &[u64], seed: u64) -> Self {
        ScriptRng {
            prefix: prefix.to_vec(),
            pos: 0,
            tail: Xoshiro256StarStar::seed_from_u64(seed),
            words: 0,
            budget: None,
        }
    }

    pub fn with_budget(mut self, b: u64) -> Self {
        self.budget = Some(b);
        self
    }

    fn word(&mut self) -> u64 {
        self.words += 1;
        if let Some(b) = self.budget {
            if self.words > b {
                std::panic::panic_any(RngBudgetExceeded(self.words));
            }
        }
        if self.pos < self.prefix.len() {
            let w = self.prefix[self.pos];
            self.pos += 1;
            w
        } else {
            self.tail.next_u64()
        }
    }
}

impl RngCore for ScriptRng {
    fn next_u32(&mut self) -> u32 {
        (self.word() >> 32) as u32
    }
    fn next_u64(&mut self) -> u64 {
        self.word()
    }
    fn fill_bytes(&mut self, dest: &mut [u8]) {
        for chunk in dest.chunks_mut(8) {
            let w = self.word().to_le_bytes();
            chunk.copy_from_slice(&w[..chunk.len()]);
        }
    }
    fn try_fill_bytes(&mut self, dest: &mut [u8]) -> Result<(), rand_core::Error> {
        self.fill_bytes(dest);
        Ok(())
    }
}

/// The f32 a transition draw compares against the cumulative probabilities
/// when the random source hands out the 32-bit value `w32`.
pub fn draw_f32(w32: u32) -> f32 {
    (w32 >> 9) as f32 * (1.0 / 8388608.0)
}

/// A 64-bit script entry whose transition draw is exactly `k * 2^-23`.
pub fn word_for_k(k: u32) -> u64 {
    ((k as u64) << 9) << 32
}

/// Self-test of the trusted mapping word -> f32 against the pinned `rand`.
pub fn self_test() -> Result<(), String> {
    use rand::Rng;
    let ks = [0u32, 1, 2, 4194304, 8388606, 8388607, 12345, 7654321];
    for &k in &ks {
        for low in [0u32, 1, 511] {
            let w32 = (k << 9) | low;
            let mut r = ScriptRng::new(&[(w32 as u64) << 32 | 0xdead_beef], 0);
            let v: f32 = r.gen_range(0.0..1.0);
            if v.to_bits() != draw_f32(w32).to_bits() || r.words != 1 {
                return Err(format!(
                    "rand mapping changed: w32={w32:#x} gen_range={v:?} expected={:?} words={}",
                    draw_f32(w32),
                    r.words
                ));
            }
        }
    }
    Ok(())
}
