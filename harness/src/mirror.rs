//! A harness-side mirror of the serialized layout of `maybenot::Machine`
//! (bincode, default options), so that encodings with contents the public
//! constructors cannot produce (empty transition lists, huge indices, NaN
//! everywhere) can be built, and the layers of a machine string handled
//! separately (bincode -> zlib -> base64 -> version prefix).

use base64::prelude::*;
use bincode::Options;
use flate2::write::ZlibEncoder;
use flate2::Compression;
use serde::{Deserialize, Serialize};
use std::io::Write;

use crate::spec::*;

#[derive(Serialize, Deserialize, Clone, Debug, PartialEq)]
pub enum MDistType {
    Uniform { low: f64, high: f64 },
    Normal { mean: f64, stdev: f64 },
    SkewNormal { location: f64, scale: f64, shape: f64 },
    LogNormal { mu: f64, sigma: f64 },
    Binomial { trials: u64, probability: f64 },
    Geometric { probability: f64 },
    Pareto { scale: f64, shape: f64 },
    Poisson { lambda: f64 },
    Weibull { scale: f64, shape: f64 },
    Gamma { scale: f64, shape: f64 },
    Beta { alpha: f64, beta: f64 },
}

#[derive(Serialize, Deserialize, Clone, Debug, PartialEq)]
pub struct MDist {
    pub dist: MDistType,
    pub start: f64,
    pub max: f64,
}

#[derive(Serialize, Deserialize, Clone, Debug, PartialEq)]
pub enum MTimer {
    Action,
    Internal,
    All,
}

#[derive(Serialize, Deserialize, Clone, Debug, PartialEq)]
pub enum MAction {
    Cancel { timer: MTimer },
    SendPadding { bypass: bool, replace: bool, timeout: MDist, limit: Option<MDist> },
    BlockOutgoing { bypass: bool, replace: bool, timeout: MDist, duration: MDist, limit: Option<MDist> },
    UpdateTimer { replace: bool, duration: MDist, limit: Option<MDist> },
}

#[derive(Serialize, Deserialize, Clone, Debug, PartialEq)]
pub enum MOperation {
    Increment,
    Decrement,
    Set,
}

#[derive(Serialize, Deserialize, Clone, Debug, PartialEq)]
pub struct MCounter {
    pub operation: MOperation,
    pub dist: Option<MDist>,
    pub copy: bool,
}

#[derive(Serialize, Deserialize, Clone, Debug, PartialEq)]
pub struct MTrans(pub usize, pub f32);

#[derive(Serialize, Deserialize, Clone, Debug, PartialEq)]
pub struct MState {
    pub action: Option<MAction>,
    pub counter: (Option<MCounter>, Option<MCounter>),
    pub transitions: [Option<Vec<MTrans>>; 13],
}

#[derive(Serialize, Deserialize, Clone, Debug, PartialEq)]
pub struct MMachine {
    pub allowed_padding_packets: u64,
    pub max_padding_frac: f64,
    pub allowed_blocked_microsec: u64,
    pub max_blocking_frac: f64,
    pub states: Vec<MState>,
}

pub fn mdist(d: &DistSpec) -> MDist {
    let dist = match d.kind {
        DistKind::Uniform { low, high } => MDistType::Uniform { low: low.0, high: high.0 },
        DistKind::Normal { mean, stdev } => MDistType::Normal { mean: mean.0, stdev: stdev.0 },
        DistKind::SkewNormal { location, scale, shape } => MDistType::SkewNormal {
            location: location.0,
            scale: scale.0,
            shape: shape.0,
        },
        DistKind::LogNormal { mu, sigma } => MDistType::LogNormal { mu: mu.0, sigma: sigma.0 },
        DistKind::Binomial { trials, probability } => MDistType::Binomial { trials, probability: probability.0 },
        DistKind::Geometric { probability } => MDistType::Geometric { probability: probability.0 },
        DistKind::Pareto { scale, shape } => MDistType::Pareto { scale: scale.0, shape: shape.0 },
        DistKind::Poisson { lambda } => MDistType::Poisson { lambda: lambda.0 },
        DistKind::Weibull { scale, shape } => MDistType::Weibull { scale: scale.0, shape: shape.0 },
        DistKind::Gamma { scale, shape } => MDistType::Gamma { scale: scale.0, shape: shape.0 },
        DistKind::Beta { alpha, beta } => MDistType::Beta { alpha: alpha.0, beta: beta.0 },
    };
    MDist { dist, start: d.start.0, max: d.max.0 }
}

fn maction(a: &ActionSpec) -> MAction {
    match a {
        ActionSpec::Cancel { timer } => MAction::Cancel {
            timer: match timer {
                0 => MTimer::Action,
                1 => MTimer::Internal,
                _ => MTimer::All,
            },
        },
        ActionSpec::Pad { bypass, replace, timeout, limit } => MAction::SendPadding {
            bypass: *bypass,
            replace: *replace,
            timeout: mdist(timeout),
            limit: limit.as_ref().map(mdist),
        },
        ActionSpec::Block { bypass, replace, timeout, duration, limit } => MAction::BlockOutgoing {
            bypass: *bypass,
            replace: *replace,
            timeout: mdist(timeout),
            duration: mdist(duration),
            limit: limit.as_ref().map(mdist),
        },
        ActionSpec::Timer { replace, duration, limit } => MAction::UpdateTimer {
            replace: *replace,
            duration: mdist(duration),
            limit: limit.as_ref().map(mdist),
        },
    }
}

fn mcounter(c: &CounterSpec) -> MCounter {
    MCounter {
        operation: match c.op {
            0 => MOperation::Increment,
            1 => MOperation::Decrement,
            _ => MOperation::Set,
        },
        dist: c.dist.as_ref().map(mdist),
        copy: c.copy,
    }
}

/// Mirror of a spec. Unlike `State::new`, empty transition lists are kept as
/// `Some(vec![])`.
pub fn mmachine(m: &MachineSpec) -> MMachine {
    MMachine {
        allowed_padding_packets: m.allowed_padding_packets,
        max_padding_frac: m.max_padding_frac.0,
        allowed_blocked_microsec: m.allowed_blocked_microsec,
        max_blocking_frac: m.max_blocking_frac.0,
        states: m
            .states
            .iter()
            .map(|s| {
                const NONE: Option<Vec<MTrans>> = None;
                let mut transitions = [NONE; 13];
                for (e, v) in &s.trans {
                    transitions[*e as usize % 13] = Some(v.iter().map(|(t, p)| MTrans(*t, p.0)).collect());
                }
                MState {
                    action: s.action.as_ref().map(maction),
                    counter: (s.counter_a.as_ref().map(mcounter), s.counter_b.as_ref().map(mcounter)),
                    transitions,
                }
            })
            .collect(),
    }
}

/// bincode with the options the machine format uses, without the size limit
pub fn bincode_of<T: Serialize>(v: &T) -> Vec<u8> {
    bincode::DefaultOptions::new().serialize(v).expect("bincode")
}

pub fn zlib(data: &[u8], level: u32) -> Vec<u8> {
    let mut e = ZlibEncoder::new(Vec::new(), Compression::new(level));
    e.write_all(data).expect("zlib write");
    e.finish().expect("zlib finish")
}

/// "02" + base64(zlib(payload))
pub fn v2_string(payload: &[u8]) -> String {
    format!("02{}", BASE64_STANDARD.encode(zlib(payload, 9)))
}

pub fn v2_string_from_compressed(compressed: &[u8]) -> String {
    format!("02{}", BASE64_STANDARD.encode(compressed))
}

/// split a v2 string into its compressed bytes, if the outer layers decode
pub fn v2_compressed(s: &str) -> Option<Vec<u8>> {
    if s.len() < 3 || !s.is_ascii() {
        return None;
    }
    BASE64_STANDARD.decode(&s.as_bytes()[2..]).ok()
}

pub fn inflate(compressed: &[u8], limit: usize) -> Option<Vec<u8>> {
    use std::io::Read;
    let mut d = flate2::read::ZlibDecoder::new(compressed);
    let mut buf = vec![];
    let mut chunk = [0u8; 65536];
    loop {
        match d.read(&mut chunk) {
            Ok(0) => return Some(buf),
            Ok(n) => {
                buf.extend_from_slice(&chunk[..n]);
                if buf.len() > limit {
                    return Some(buf);
                }
            }
            Err(_) => return None,
        }
    }
}
