//! Contract monitor for the simulator (C16, C17, C18).
//!
//! Each side's events are replayed, in trace order and with their timestamps,
//! through a fresh `Framework` seeded exactly like the simulator's (client:
//! seed, server: seed+1, started at the time of the first event). That
//! recovers the actions the simulator received. From those actions the monitor
//! keeps the state an integrator must keep by contract (action timer and
//! internal timer per machine, blocking expiry and bypass permission per side)
//! and judges every reported event and every logged timer firing against it.

use std::collections::VecDeque;
use std::time::Instant;

use maybenot::{Framework, Machine, Timer, TriggerAction};
use maybenot_simulator::verif::FireKind;
use maybenot_simulator::SimEvent;
use rand_core::SeedableRng;
use rand_xoshiro::Xoshiro256StarStar;

use crate::simrun::*;
use crate::spec::Ev;

#[derive(Clone, Debug)]
pub struct Violation {
    /// "C16", "C17" or "C18"
    pub prop: &'static str,
    pub signature: String,
    pub detail: String,
}

#[derive(Default, Debug, Clone)]
pub struct Stats {
    pub fires_padding: u64,
    pub fires_blocking: u64,
    pub fires_timer: u64,
    pub superseded: u64,
    pub cancelled_action: u64,
    pub cancelled_internal: u64,
    pub periods: u64,
    pub period_updates: u64,
    pub update_with_different_bypass: u64,
    pub bypass_padding_during_nonbypass_blocking: u64,
    pub zero_duration_block: u64,
    pub replace_shortened: u64,
    pub tunnel_sent_inside_period: u64,
    pub packet_held_by_blocking: u64,
    pub timer_unchanged_update: u64,
    pub timer_changed_update: u64,
    pub timer_end: u64,
    pub zero_duration_timer: u64,
    pub same_instant_updates: u64,
}

#[derive(Clone, Copy, Debug, PartialEq)]
enum Kind {
    Pad,
    Block,
}

#[derive(Clone, Copy, Debug)]
struct Pending {
    kind: Kind,
    due: i128,
    bypass: bool,
    replace: bool,
    duration: i128,
}

#[derive(Clone, Copy, Debug)]
struct Period {
    expiry: i128,
    permission: bool,
    begin_reported: bool,
    started: i128,
}

struct Side {
    fw: Framework<Vec<Machine>, Xoshiro256StarStar, Instant>,
    action: Vec<Option<Pending>>,
    internal: Vec<Option<i128>>,
    /// fired actions whose report (PaddingSent / BlockingBegin) is still due: (kind, time, bypass, replace)
    await_report: Vec<VecDeque<(Kind, i128, bool, bool)>>,
    await_timer_end: Vec<VecDeque<i128>>,
    /// TimerBegin reports that must come (timer set or changed) / may come (unchanged)
    tb_required: Vec<VecDeque<i128>>,
    tb_optional: Vec<VecDeque<i128>>,
    blk: Option<Period>,
    /// a packet that the current blocking would have held left exactly at the period's expiry
    /// instant (tolerated, provided the period does end there)
    left_at_expiry: Option<i128>,
    /// credits for bypass-flagged packets
    credit_bypass: i64,
    credit_bypass_replace: i64,
    last_update_time: Vec<Option<i128>>,
}

fn dur_ns(d: &std::time::Duration) -> i128 {
    d.as_nanos() as i128
}

pub struct Monitor {
    sides: [Side; 2], // [server, client]
    pub violations: Vec<Violation>,
    pub stats: Stats,
}

impl Monitor {
    pub fn new(c: &SimCase, client: &[Machine], server: &[Machine], start: Instant) -> Monitor {
        let mk = |m: &[Machine], pf: f64, bf: f64, seed: u64| {
            let n = m.len();
            Side {
                fw: Framework::new(m.to_vec(), pf, bf, start, Xoshiro256StarStar::seed_from_u64(seed))
                    .expect("replay framework"),
                action: vec![None; n],
                internal: vec![None; n],
                await_report: vec![VecDeque::new(); n],
                await_timer_end: vec![VecDeque::new(); n],
                tb_required: vec![VecDeque::new(); n],
                tb_optional: vec![VecDeque::new(); n],
                blk: None,
                left_at_expiry: None,
                credit_bypass: 0,
                credit_bypass_replace: 0,
                last_update_time: vec![None; n],
            }
        };
        Monitor {
            sides: [
                mk(server, c.fracs[2].0, c.fracs[3].0, c.seed.wrapping_add(1)),
                mk(client, c.fracs[0].0, c.fracs[1].0, c.seed),
            ],
            violations: vec![],
            stats: Stats::default(),
        }
    }

    fn v(&mut self, prop: &'static str, sig: &str, detail: String) {
        self.violations.push(Violation { prop, signature: sig.to_string(), detail });
    }

    fn who(client: bool) -> &'static str {
        if client {
            "client"
        } else {
            "server"
        }
    }

    /// Things that must have happened before simulated time moves past them.
    fn time_moves_to(&mut self, t: i128, pos: usize) {
        for s in 0..2 {
            let client = s == 1;
            let n = self.sides[s].action.len();
            for m in 0..n {
                if let Some(p) = self.sides[s].action[m] {
                    if p.due < t {
                        self.sides[s].action[m] = None;
                        self.v(
                            "C17",
                            "action-timer-not-fired-when-due",
                            format!("{} machine {m}: {:?} action due at {} ns had not fired when time moved to {t} ns (event #{pos})", Self::who(client), p.kind, p.due),
                        );
                    }
                }
                if let Some(e) = self.sides[s].internal[m] {
                    if e < t {
                        self.sides[s].internal[m] = None;
                        self.v(
                            "C18",
                            "internal-timer-not-expired-when-due",
                            format!("{} machine {m}: internal timer due at {e} ns had not expired when time moved to {t} ns (event #{pos})", Self::who(client)),
                        );
                    }
                }
                while let Some(&(k, rt, _, _)) = self.sides[s].await_report[m].front() {
                    if rt < t {
                        self.sides[s].await_report[m].pop_front();
                        self.v(
                            "C17",
                            "fired-action-not-reported-at-its-time",
                            format!("{} machine {m}: {k:?} action fired at {rt} ns but its report had not appeared when time moved to {t} ns", Self::who(client)),
                        );
                    } else {
                        break;
                    }
                }
                while let Some(&rt) = self.sides[s].await_timer_end[m].front() {
                    if rt < t {
                        self.sides[s].await_timer_end[m].pop_front();
                        self.v(
                            "C18",
                            "timer-end-not-reported-at-expiry",
                            format!("{} machine {m}: internal timer expired at {rt} ns but TimerEnd had not appeared when time moved to {t} ns", Self::who(client)),
                        );
                    } else {
                        break;
                    }
                }
                while let Some(&rt) = self.sides[s].tb_required[m].front() {
                    if rt < t {
                        self.sides[s].tb_required[m].pop_front();
                        self.v(
                            "C18",
                            "timer-begin-missing",
                            format!("{} machine {m}: an UpdateTimer action set or changed the internal timer at {rt} ns but no TimerBegin was reported at that instant", Self::who(client)),
                        );
                    } else {
                        break;
                    }
                }
                while let Some(&rt) = self.sides[s].tb_optional[m].front() {
                    if rt < t {
                        self.sides[s].tb_optional[m].pop_front();
                    } else {
                        break;
                    }
                }
            }
            if let Some(p) = self.sides[s].blk {
                if p.expiry < t {
                    self.sides[s].blk = None;
                    let sig = if p.expiry == p.started {
                        "blocking-end-missing (zero-duration blocking)"
                    } else {
                        "blocking-end-missing"
                    };
                    self.v(
                        "C16",
                        sig,
                        format!("{}: blocking that began at {} ns expired at {} ns but no BlockingEnd had been reported when time moved to {t} ns", Self::who(client), p.started, p.expiry),
                    );
                }
            }
        }
    }

    pub fn fire(&mut self, f: &FireRec) {
        let s = f.client as usize;
        let m = f.machine;
        let who = Self::who(f.client);
        match f.kind {
            FireKind::Padding | FireKind::Blocking => {
                let kind = if f.kind == FireKind::Padding { Kind::Pad } else { Kind::Block };
                if kind == Kind::Pad {
                    self.stats.fires_padding += 1;
                } else {
                    self.stats.fires_blocking += 1;
                }
                let Some(p) = self.sides[s].action.get(m).copied().flatten() else {
                    self.v(
                        "C17",
                        "fired-without-pending-action",
                        format!("{who} machine {m}: a {kind:?} action fired at {} ns but the framework's most recent action for the machine is not pending (superseded, cancelled or already fired)", f.due),
                    );
                    return;
                };
                if p.kind != kind || p.due != f.due {
                    self.v(
                        "C17",
                        "fired-action-is-not-the-most-recent-one",
                        format!("{who} machine {m}: fired {kind:?} due {} ns, but the pending action is {:?} due {} ns", f.due, p.kind, p.due),
                    );
                    return;
                }
                self.sides[s].action[m] = None;
                self.sides[s].await_report[m].push_back((kind, p.due, p.bypass, p.replace));
                if kind == Kind::Block {
                    // the blocking contract
                    let t = p.due;
                    let new_expiry = t + p.duration;
                    if p.duration == 0 {
                        self.stats.zero_duration_block += 1;
                    }
                    match self.sides[s].blk {
                        None => {
                            self.stats.periods += 1;
                            self.sides[s].blk = Some(Period {
                                expiry: new_expiry,
                                permission: p.bypass,
                                begin_reported: false,
                                started: t,
                            });
                        }
                        Some(mut per) => {
                            if per.expiry == t && new_expiry > t && self.sides[s].left_at_expiry == Some(t) {
                                // neither order of the two things due at t explains this: had the
                                // blocking ended first, its BlockingEnd would have been reported
                                // before this action was carried out; had the action come first,
                                // the blocking never lapsed and the packets could not leave
                                self.v(
                                    "C16",
                                    "packet-left-at-the-instant-a-blocking-was-extended-without-ending",
                                    format!("{who}: packets left at {t} ns, the expiry of the blocking that began at {} ns, no BlockingEnd was reported, and a BlockOutgoing action carried out at {t} ns then extended that same blocking to {new_expiry} ns", per.started),
                                );
                            }
                            if p.replace || new_expiry > per.expiry {
                                self.stats.period_updates += 1;
                                if per.permission != p.bypass {
                                    self.stats.update_with_different_bypass += 1;
                                }
                                if new_expiry < per.expiry {
                                    self.stats.replace_shortened += 1;
                                }
                                per.expiry = new_expiry;
                                per.permission = per.permission && p.bypass;
                                self.sides[s].blk = Some(per);
                            }
                        }
                    }
                }
            }
            FireKind::Timer => {
                self.stats.fires_timer += 1;
                match self.sides[s].internal.get(m).copied().flatten() {
                    Some(e) if e == f.due => {
                        self.sides[s].internal[m] = None;
                        self.sides[s].await_timer_end[m].push_back(e);
                    }
                    other => {
                        self.v(
                            "C18",
                            "timer-expired-that-is-not-running",
                            format!("{who} machine {m}: internal timer expired at {} ns, but by the UpdateTimer/Cancel actions returned so far its timer is {other:?}", f.due),
                        );
                    }
                }
            }
        }
    }

    pub fn event(&mut self, pos: usize, e: &SimEvent, r: &Rec) {
        self.time_moves_to(r.t, pos);
        let s = r.client as usize;
        let who = Self::who(r.client);
        let t = r.t;
        match r.ev {
            Ev::PaddingSent(m) | Ev::BlockingBegin(m) => {
                let kind = if matches!(r.ev, Ev::PaddingSent(_)) { Kind::Pad } else { Kind::Block };
                let front = self.sides[s].await_report.get_mut(m).and_then(|q| q.front().copied());
                match front {
                    Some((k, rt, bypass, replace)) if k == kind && rt == t => {
                        self.sides[s].await_report[m].pop_front();
                        if kind == Kind::Pad {
                            if bypass {
                                self.sides[s].credit_bypass += 1;
                                if replace {
                                    self.sides[s].credit_bypass_replace += 1;
                                }
                                if let Some(p) = self.sides[s].blk {
                                    if !p.permission && t < p.expiry {
                                        self.stats.bypass_padding_during_nonbypass_blocking += 1;
                                    }
                                }
                            }
                        } else if let Some(p) = self.sides[s].blk.as_mut() {
                            p.begin_reported = true;
                        }
                    }
                    other => {
                        self.v(
                            "C17",
                            "report-without-matching-fired-action",
                            format!("{who}: {:?} reported at {t} ns (event #{pos}) but the next unreported fired action of that machine is {other:?}", r.ev),
                        );
                    }
                }
            }
            Ev::TimerEnd(m) => {
                self.stats.timer_end += 1;
                let front = self.sides[s].await_timer_end.get_mut(m).and_then(|q| q.front().copied());
                match front {
                    Some(rt) if rt == t => {
                        self.sides[s].await_timer_end[m].pop_front();
                    }
                    other => self.v(
                        "C18",
                        "timer-end-without-expiry",
                        format!("{who} machine {m}: TimerEnd at {t} ns (event #{pos}) but the next unreported expiry is {other:?}"),
                    ),
                }
            }
            Ev::TimerBegin(m) => {
                let req = self.sides[s].tb_required.get_mut(m).and_then(|q| q.front().copied());
                if req == Some(t) {
                    self.sides[s].tb_required[m].pop_front();
                } else {
                    let opt = self.sides[s].tb_optional.get_mut(m).and_then(|q| q.front().copied());
                    if opt == Some(t) {
                        self.sides[s].tb_optional[m].pop_front();
                    } else {
                        self.v(
                            "C18",
                            "timer-begin-without-update-timer-action",
                            format!("{who} machine {m}: TimerBegin at {t} ns (event #{pos}) does not follow an UpdateTimer action returned for that machine at that instant"),
                        );
                    }
                }
            }
            Ev::BlockingEnd => match self.sides[s].blk {
                Some(p) if p.expiry == t && p.begin_reported => {
                    self.sides[s].blk = None;
                    // every action that went into this period has its begin reported first
                    let unreported = self.sides[s]
                        .await_report
                        .iter()
                        .any(|q| q.iter().any(|(k, rt, _, _)| *k == Kind::Block && *rt <= t));
                    if unreported {
                        self.v(
                            "C16",
                            "blocking-end-before-the-begin-of-an-updating-action",
                            format!("{who}: BlockingEnd at {t} ns (event #{pos}) reported while the BlockingBegin of an action that updated the period is still outstanding"),
                        );
                    }
                }
                Some(p) if p.expiry == t => {
                    self.sides[s].blk = None;
                    let sig = if p.expiry == p.started {
                        "blocking-end-before-its-begin (zero-duration blocking)"
                    } else {
                        "blocking-end-before-its-begin"
                    };
                    self.v("C16", sig, format!("{who}: BlockingEnd at {t} ns (event #{pos}) reported before the BlockingBegin of the period that began at {} ns", p.started));
                }
                Some(p) => {
                    self.v(
                        "C16",
                        "blocking-end-not-at-expiry",
                        format!("{who}: BlockingEnd at {t} ns (event #{pos}) but by the actions that started/updated the blocking it expires at {} ns", p.expiry),
                    );
                    self.sides[s].blk = None;
                }
                None => {
                    self.v("C16", "blocking-end-without-blocking", format!("{who}: BlockingEnd at {t} ns (event #{pos}) while no blocking is active"));
                }
            },
            Ev::TunnelSent => {
                if r.bypass {
                    self.sides[s].credit_bypass -= 1;
                    if self.sides[s].credit_bypass < 0 {
                        self.sides[s].credit_bypass = 0;
                        self.v(
                            "C16",
                            "bypass-marked-packet-without-bypass-padding",
                            format!("{who}: TunnelSent at {t} ns (event #{pos}) is marked bypass but no unreplaced PaddingSent of an action with the bypass flag backs it"),
                        );
                    }
                    if !r.padding {
                        self.sides[s].credit_bypass_replace -= 1;
                        if self.sides[s].credit_bypass_replace < 0 {
                            self.sides[s].credit_bypass_replace = 0;
                            self.v(
                                "C16",
                                "normal-packet-marked-bypass-without-bypass-replace-padding",
                                format!("{who}: normal TunnelSent at {t} ns (event #{pos})"),
                            );
                        }
                    }
                }
                if let Some(p) = self.sides[s].blk {
                    if t == p.expiry && !(r.bypass && p.permission) {
                        self.sides[s].left_at_expiry = Some(t);
                    }
                    if t < p.expiry {
                        self.stats.tunnel_sent_inside_period += 1;
                        if !r.bypass {
                            self.v(
                                "C16",
                                "packet-left-during-blocking",
                                format!("{who}: {} TunnelSent without bypass at {t} ns (event #{pos}) inside the blocking period {}..{} ns", if r.padding { "padding" } else { "normal" }, p.started, p.expiry),
                            );
                        } else if !p.permission {
                            self.v(
                                "C16",
                                "bypass-packet-escaped-blocking-that-does-not-allow-bypass",
                                format!("{who}: bypass TunnelSent at {t} ns (event #{pos}) inside the blocking period {}..{} ns, which was started or updated by an action without the bypass flag", p.started, p.expiry),
                            );
                        }
                    }
                }
            }
            _ => {}
        }

        // replay: what did the framework return for this event?
        let side = &mut self.sides[s];
        let actions: Vec<TriggerAction> = side.fw.trigger_events(&[e.event.clone()], e.time).cloned().collect();
        for a in actions {
            match a {
                TriggerAction::Cancel { machine, timer } => {
                    let m = machine.into_raw();
                    if matches!(timer, Timer::Action | Timer::All) && side.action[m].take().is_some() {
                        self.stats.cancelled_action += 1;
                    }
                    if matches!(timer, Timer::Internal | Timer::All) && side.internal[m].take().is_some() {
                        self.stats.cancelled_internal += 1;
                    }
                }
                TriggerAction::SendPadding { timeout, bypass, replace, machine } => {
                    let m = machine.into_raw();
                    if side.action[m].is_some() {
                        self.stats.superseded += 1;
                    }
                    side.action[m] = Some(Pending { kind: Kind::Pad, due: t + dur_ns(&timeout), bypass, replace, duration: 0 });
                }
                TriggerAction::BlockOutgoing { timeout, duration, bypass, replace, machine } => {
                    let m = machine.into_raw();
                    if side.action[m].is_some() {
                        self.stats.superseded += 1;
                    }
                    side.action[m] = Some(Pending {
                        kind: Kind::Block,
                        due: t + dur_ns(&timeout),
                        bypass,
                        replace,
                        duration: dur_ns(&duration),
                    });
                }
                TriggerAction::UpdateTimer { duration, replace, machine } => {
                    let m = machine.into_raw();
                    let new = t + dur_ns(&duration);
                    if duration.is_zero() {
                        self.stats.zero_duration_timer += 1;
                    }
                    if side.last_update_time[m] == Some(t) {
                        self.stats.same_instant_updates += 1;
                    }
                    side.last_update_time[m] = Some(t);
                    let changes = match side.internal[m] {
                        None => true,
                        Some(cur) => replace || new > cur,
                    };
                    if changes {
                        side.internal[m] = Some(new);
                        side.tb_required[m].push_back(t);
                        self.stats.timer_changed_update += 1;
                    } else {
                        side.tb_optional[m].push_back(t);
                        self.stats.timer_unchanged_update += 1;
                    }
                }
            }
        }
    }
}

/// Run the monitors over a complete unfiltered output.
pub fn monitor(c: &SimCase, client: &[Machine], server: &[Machine], out: &SimOut) -> (Vec<Violation>, Stats) {
    if out.events.is_empty() {
        return (vec![], Stats::default());
    }
    let anchor = out.events[0].time;
    let mut mon = Monitor::new(c, client, server, anchor);
    let rs = recs(&out.events, anchor);
    let fires = fire_recs(&out.fires, anchor);
    let mut fi = 0;
    for (k, (e, r)) in out.events.iter().zip(rs.iter()).enumerate() {
        while fi < fires.len() && fires[fi].pos <= k {
            let f = fires[fi].clone();
            if f.due > r.t {
                let (prop, what) = if f.kind == FireKind::Timer { ("C18", "internal timer") } else { ("C17", "action timer") };
                mon.violations.push(Violation {
                    prop,
                    signature: format!("{what}-executed-before-simulated-time-reached-it"),
                    detail: format!(
                        "{} machine {}: {what} due at {} ns was executed before the event at {} ns (#{k}) was processed",
                        if f.client { "client" } else { "server" }, f.machine, f.due, r.t
                    ),
                });
            }
            // a fire moves time to its due instant
            mon.time_moves_to(f.due.min(r.t), k);
            mon.fire(&f);
            fi += 1;
        }
        mon.event(k, e, r);
    }
    // a packet queued behind blocking: count for non-triviality
    let mut held = 0;
    for w in rs.windows(2) {
        if matches!(w[1].ev, Ev::TunnelSent) && matches!(w[0].ev, Ev::BlockingEnd) && w[0].client == w[1].client && w[0].t == w[1].t {
            held += 1;
        }
    }
    mon.stats.packet_held_by_blocking = held;
    (mon.violations, mon.stats)
}
