//! The runner: fixed-work tiers, sharding over worker processes, per-case
//! seeding, shrinking (proptest value trees, driven explicitly), panic
//! classification, known findings, replay files and evidence.

use std::any::Any;
use std::cell::RefCell;
use std::collections::{BTreeMap, HashSet};
use std::fmt::Debug;
use std::hash::{Hash, Hasher};
use std::io::Write;
use std::panic::{catch_unwind, AssertUnwindSafe};
use std::path::{Path, PathBuf};
use std::process::{Command, Stdio};
use std::sync::atomic::{AtomicU64, Ordering};
use std::sync::Arc;
use std::time::{Duration, Instant};

use proptest::strategy::{BoxedStrategy, Strategy, ValueTree};
use proptest::test_runner::{Config, RngAlgorithm, TestRng, TestRunner};
use serde::de::DeserializeOwned;
use serde::{Deserialize, Serialize};
use serde_json::{json, Value};

use crate::rng::RngBudgetExceeded;

#[derive(Clone, Copy, Debug, PartialEq, Eq)]
pub enum Tier {
    Quick,
    Thorough,
}

impl Tier {
    pub fn name(&self) -> &'static str {
        match self {
            Tier::Quick => "quick",
            Tier::Thorough => "thorough",
        }
    }
    pub fn parse(s: &str) -> Option<Tier> {
        match s {
            "quick" => Some(Tier::Quick),
            "thorough" => Some(Tier::Thorough),
            _ => None,
        }
    }
}

#[derive(Clone, Debug)]
pub struct Profile {
    pub name: &'static str,
    pub cases: u64,
}

pub fn prof(name: &'static str, cases: u64) -> Profile {
    Profile { name, cases }
}

/// A property violation found by an oracle.
#[derive(Clone, Debug, Serialize, Deserialize)]
pub struct Failure {
    /// Stable identification of *what* failed; compared with known findings
    /// and kept fixed during shrinking.
    pub signature: String,
    pub detail: String,
}

pub fn fail<T>(signature: impl Into<String>, detail: impl Into<String>) -> Result<T, Failure> {
    Err(Failure {
        signature: signature.into(),
        detail: detail.into(),
    })
}

/// Per-case observations: generator-distribution classes and the
/// non-triviality flag.
#[derive(Default, Debug)]
pub struct Obs {
    pub classes: BTreeMap<&'static str, u64>,
    pub nontrivial: bool,
    /// known-finding signatures met in this case (judging of the case stopped there)
    pub known_hits: Vec<String>,
    /// when true, known findings are reported as failures (replay / strict)
    pub strict: bool,
}

impl Obs {
    pub fn hit(&mut self, c: &'static str) {
        *self.classes.entry(c).or_insert(0) += 1;
    }
    pub fn add(&mut self, c: &'static str, n: u64) {
        *self.classes.entry(c).or_insert(0) += n;
    }
    pub fn nontrivial(&mut self) {
        self.nontrivial = true;
    }
}

pub trait Prop {
    type Case: Clone + Debug + Serialize + DeserializeOwned + 'static;
    const ID: &'static str;
    const RULE: &'static str;
    fn profiles(tier: Tier) -> Vec<Profile>;
    fn strategy(profile: &str) -> BoxedStrategy<Self::Case>;
    fn check(case: &Self::Case, obs: &mut Obs) -> Result<(), Failure>;
    /// classes that must be non-empty for the run to count (vacuity guard)
    fn required_classes() -> Vec<&'static str> {
        vec![]
    }
    fn assumptions() -> Vec<&'static str> {
        vec![]
    }
    /// true when the profile enumerates a finite space completely
    fn exhaustive(_tier: Tier) -> bool {
        false
    }
    /// a short, readable rendering of a case for the evidence samples
    fn sample(case: &Self::Case) -> Value {
        serde_json::to_value(case).unwrap_or(Value::Null)
    }
    /// panics of the code under test are violations unless the property says otherwise
    fn panic_is_violation() -> bool {
        true
    }
    /// Is this case inside the property's domain? The generators only produce admissible cases;
    /// cases edited by the fuzzer's mutator are filtered with this predicate.
    fn admissible(_case: &Self::Case) -> bool {
        true
    }
}

// ---------------------------------------------------------------------------
// panic capture

#[derive(Clone, Debug)]
pub struct PanicInfo {
    pub file: String,
    pub line: u32,
    pub msg: String,
}

thread_local! {
    static LAST_PANIC: RefCell<Option<PanicInfo>> = const { RefCell::new(None) };
}

pub fn install_panic_hook() {
    std::panic::set_hook(Box::new(|info| {
        let (file, line) = info
            .location()
            .map(|l| (l.file().to_string(), l.line()))
            .unwrap_or_default();
        let msg = if let Some(s) = info.payload().downcast_ref::<&str>() {
            s.to_string()
        } else if let Some(s) = info.payload().downcast_ref::<String>() {
            s.clone()
        } else if info.payload().downcast_ref::<RngBudgetExceeded>().is_some() {
            "RngBudgetExceeded".to_string()
        } else {
            "non-string panic payload".to_string()
        };
        if std::env::var_os("VERIF_DEBUG_PANIC").is_some() {
            eprintln!("panic at {file}:{line}: {msg}");
        }
        LAST_PANIC.with(|p| *p.borrow_mut() = Some(PanicInfo { file, line, msg }));
    }));
}

pub enum Caught<T> {
    Ok(T),
    /// panic raised by the code under test (or a dependency of it)
    Panic(PanicInfo),
    /// the random source handed out more words than budgeted
    RngBudget(u64),
    /// panic raised inside the harness itself: a harness bug, never a violation
    Harness(PanicInfo),
}

pub fn guarded<T>(f: impl FnOnce() -> T) -> Caught<T> {
    LAST_PANIC.with(|p| *p.borrow_mut() = None);
    match catch_unwind(AssertUnwindSafe(f)) {
        Ok(v) => Caught::Ok(v),
        Err(payload) => classify_panic(payload),
    }
}

fn classify_panic<T>(payload: Box<dyn Any + Send>) -> Caught<T> {
    if let Some(b) = payload.downcast_ref::<RngBudgetExceeded>() {
        return Caught::RngBudget(b.0);
    }
    let info = LAST_PANIC.with(|p| p.borrow_mut().take()).unwrap_or(PanicInfo {
        file: "?".into(),
        line: 0,
        msg: "?".into(),
    });
    // a panic raised by the harness' own code (wherever this copy of the harness was built)
    if info.file.starts_with(env!("CARGO_MANIFEST_DIR")) || info.file.contains("/verif/harness/") || info.file.starts_with("src/") {
        Caught::Harness(info)
    } else {
        Caught::Panic(info)
    }
}

/// A stable signature for a panic: file name (without directories and line)
/// plus the first line of the message, with digits runs kept (messages of the
/// code under test are short).
pub fn panic_signature(p: &PanicInfo) -> String {
    let base = p.file.rsplit('/').next().unwrap_or("?");
    let first = p.msg.lines().next().unwrap_or("");
    let mut m: String = first.chars().take(120).collect();
    if m.len() < first.len() {
        m.push('…');
    }
    format!("panic in {base}: {m}")
}

// ---------------------------------------------------------------------------
// known findings

#[derive(Clone, Debug, Deserialize)]
pub struct KnownFinding {
    pub property: String,
    pub status: String,
    pub signature: String,
    #[serde(default)]
    pub what: String,
}

pub fn verif_root() -> PathBuf {
    if let Ok(p) = std::env::var("VERIF_ROOT") {
        return PathBuf::from(p);
    }
    PathBuf::from("/verif")
}

pub fn load_known(id: &str) -> Vec<KnownFinding> {
    let p = verif_root().join("known_findings.json");
    let Ok(s) = std::fs::read_to_string(&p) else {
        return vec![];
    };
    #[derive(Deserialize)]
    struct File {
        findings: Vec<KnownFinding>,
    }
    let f: File = serde_json::from_str(&s).expect("known_findings.json is malformed");
    f.findings
        .into_iter()
        .filter(|k| k.property == id && k.status == "known")
        .collect()
}

// ---------------------------------------------------------------------------
// per-case seeding and generation

fn case_seed(seed: u64, id: &str, profile: &str, index: u64) -> [u8; 32] {
    // splitmix-style mixing of (seed, id, profile, index) into 32 bytes
    let mut h = std::collections::hash_map::DefaultHasher::new();
    seed.hash(&mut h);
    id.hash(&mut h);
    profile.hash(&mut h);
    index.hash(&mut h);
    let mut x = h.finish();
    let mut out = [0u8; 32];
    for chunk in out.chunks_mut(8) {
        x = x.wrapping_add(0x9E37_79B9_7F4A_7C15);
        let mut z = x;
        z = (z ^ (z >> 30)).wrapping_mul(0xBF58_476D_1CE4_E5B9);
        z = (z ^ (z >> 27)).wrapping_mul(0x94D0_49BB_1331_11EB);
        z ^= z >> 31;
        chunk.copy_from_slice(&z.to_le_bytes());
    }
    out
}

fn runner_for(seed: u64, id: &str, profile: &str, index: u64) -> TestRunner {
    let cfg = Config {
        failure_persistence: None,
        ..Config::default()
    };
    TestRunner::new_with_rng(
        cfg,
        TestRng::from_seed(RngAlgorithm::ChaCha, &case_seed(seed, id, profile, index)),
    )
}

pub fn fingerprint<T: Serialize>(c: &T) -> u64 {
    let s = serde_json::to_string(c).unwrap_or_default();
    let mut h = std::collections::hash_map::DefaultHasher::new();
    s.hash(&mut h);
    h.finish()
}

// ---------------------------------------------------------------------------
// running one case

pub enum CaseOutcome {
    Pass,
    Fail(Failure),
    Harness(String),
}

pub fn run_case<P: Prop>(case: &P::Case, obs: &mut Obs) -> CaseOutcome {
    match guarded(|| P::check(case, obs)) {
        Caught::Ok(Ok(())) => CaseOutcome::Pass,
        Caught::Ok(Err(f)) => CaseOutcome::Fail(f),
        Caught::Panic(p) => {
            if P::panic_is_violation() {
                CaseOutcome::Fail(Failure {
                    signature: panic_signature(&p),
                    detail: format!("panic at {}:{}: {}", p.file, p.line, p.msg),
                })
            } else {
                CaseOutcome::Harness(format!("unexpected panic at {}:{}: {}", p.file, p.line, p.msg))
            }
        }
        Caught::RngBudget(n) => CaseOutcome::Fail(Failure {
            signature: "sampler-loop: random-word budget exceeded".into(),
            detail: format!("the random source handed out {n} words without the call returning"),
        }),
        Caught::Harness(p) => {
            CaseOutcome::Harness(format!("harness panic at {}:{}: {}", p.file, p.line, p.msg))
        }
    }
}

// ---------------------------------------------------------------------------
// worker

#[derive(Serialize, Deserialize, Default, Debug)]
pub struct FailureRec {
    pub signature: String,
    pub detail: String,
    pub profile: String,
    pub index: u64,
    pub case: Value,
    pub original_case: Value,
    pub shrink_steps: u64,
}

#[derive(Serialize, Deserialize, Default, Debug)]
pub struct ShardResult {
    pub evaluations: u64,
    pub classes: BTreeMap<String, u64>,
    pub nontrivial_hashes: Vec<u64>,
    pub samples: Vec<Value>,
    pub known: BTreeMap<String, u64>,
    pub per_profile: BTreeMap<String, u64>,
    pub failure: Option<FailureRec>,
    pub harness_error: Option<String>,
    pub hang: Option<(String, u64)>,
}

pub struct WorkerArgs {
    pub tier: Tier,
    pub seed: u64,
    pub shard: u64,
    pub nshards: u64,
    pub out: PathBuf,
    /// run only this (profile, index)
    pub only: Option<(String, u64)>,
    /// append "profile index\n" before each case
    pub trace: Option<PathBuf>,
    pub hang_secs: u64,
}

fn shrink<P: Prop>(
    mut tree: Box<dyn ValueTree<Value = P::Case>>,
    first: Failure,
    known: &[KnownFinding],
    progress: &AtomicU64,
) -> (P::Case, Failure, u64) {
    let mut best = tree.current();
    let mut best_f = first;
    let mut steps = 0u64;
    let t0 = Instant::now();
    let _ = known;
    if !tree.simplify() {
        return (best, best_f, steps);
    }
    loop {
        if steps > 20_000 || t0.elapsed() > Duration::from_secs(20) {
            break;
        }
        steps += 1;
        progress.fetch_add(1, Ordering::Relaxed);
        let c = tree.current();
        let mut obs = Obs {
            strict: true,
            ..Obs::default()
        };
        let failed_same = match run_case::<P>(&c, &mut obs) {
            CaseOutcome::Fail(f) if f.signature == best_f.signature => Some(f),
            _ => None,
        };
        match failed_same {
            Some(f) => {
                best = c;
                best_f = f;
                if !tree.simplify() {
                    break;
                }
            }
            None => {
                if !tree.complicate() {
                    break;
                }
            }
        }
    }
    (best, best_f, steps)
}

static TICKS: AtomicU64 = AtomicU64::new(0);

/// Long-running checks call this from their inner loops so that the watchdog can tell
/// "slow but working" from "stuck".
pub fn tick() {
    TICKS.fetch_add(1, Ordering::Relaxed);
}

pub fn worker<P: Prop>(args: &WorkerArgs) -> i32 {
    install_panic_hook();
    crate::alloc_count::track_this_thread();
    let known = load_known(P::ID);
    let mut res = ShardResult::default();
    let mut nontrivial: HashSet<u64> = HashSet::new();
    let progress = Arc::new(AtomicU64::new(0));
    let current = Arc::new(std::sync::Mutex::new((String::new(), 0u64)));

    // in-process watchdog: a case that makes no progress for hang_secs is
    // reported to the driver, which re-runs it alone before believing it
    {
        let progress = progress.clone();
        let current = current.clone();
        let out = args.out.clone();
        let hang_secs = args.hang_secs;
        std::thread::spawn(move || {
            let mut last = progress.load(Ordering::Relaxed).wrapping_add(TICKS.load(Ordering::Relaxed));
            let mut since = Instant::now();
            loop {
                std::thread::sleep(Duration::from_millis(500));
                let now = progress.load(Ordering::Relaxed).wrapping_add(TICKS.load(Ordering::Relaxed));
                if now != last {
                    last = now;
                    since = Instant::now();
                } else if since.elapsed() > Duration::from_secs(hang_secs) {
                    let cur = current.lock().map(|c| c.clone()).unwrap_or_default();
                    let r = ShardResult {
                        hang: Some(cur),
                        ..ShardResult::default()
                    };
                    let _ = std::fs::write(&out, serde_json::to_vec(&r).unwrap());
                    std::process::exit(3);
                }
            }
        });
    }

    let mut trace_file = args
        .trace
        .as_ref()
        .map(|p| std::fs::File::create(p).expect("trace file"));

    'profiles: for p in P::profiles(args.tier) {
        let strat = P::strategy(p.name);
        let indices: Box<dyn Iterator<Item = u64>> = match &args.only {
            Some((name, idx)) => {
                if name != p.name {
                    continue;
                }
                Box::new(std::iter::once(*idx))
            }
            None => Box::new((0..p.cases).filter(|i| i % args.nshards == args.shard)),
        };
        for i in indices {
            if let Ok(mut c) = current.lock() {
                *c = (p.name.to_string(), i);
            }
            if let Some(f) = trace_file.as_mut() {
                let _ = writeln!(f, "{} {}", p.name, i);
                let _ = f.flush();
            }
            let mut runner = runner_for(args.seed, P::ID, p.name, i);
            let tree = match strat.new_tree(&mut runner) {
                Ok(t) => t,
                Err(e) => {
                    res.harness_error = Some(format!("generator rejected too much: {e}"));
                    break 'profiles;
                }
            };
            let case = tree.current();
            let mut obs = Obs::default();
            let mut outcome = run_case::<P>(&case, &mut obs);
            // a finding the check skipped over must be a listed one
            if let CaseOutcome::Pass = outcome {
                if let Some(sig) = obs.known_hits.iter().find(|h| !known.iter().any(|k| k.signature == **h)) {
                    outcome = CaseOutcome::Fail(Failure {
                        signature: sig.clone(),
                        detail: "met a finding that known_findings.json does not list".into(),
                    });
                }
            }
            progress.fetch_add(1, Ordering::Relaxed);
            res.evaluations += 1;
            *res.per_profile.entry(p.name.to_string()).or_insert(0) += 1;
            match outcome {
                CaseOutcome::Pass => {
                    for (k, v) in &obs.classes {
                        *res.classes.entry(k.to_string()).or_insert(0) += v;
                    }
                    for k in &obs.known_hits {
                        *res.known.entry(k.clone()).or_insert(0) += 1;
                    }
                    if obs.nontrivial {
                        let fp = fingerprint(&case);
                        if nontrivial.insert(fp) && res.samples.len() < 3 {
                            res.samples.push(json!({"profile": p.name, "index": i, "case": P::sample(&case)}));
                        }
                    }
                }
                CaseOutcome::Fail(f) => {
                    if known.iter().any(|k| k.signature == f.signature) {
                        *res.known.entry(f.signature.clone()).or_insert(0) += 1;
                        continue;
                    }
                    let original = serde_json::to_value(&case).unwrap_or(Value::Null);
                    let (best, best_f, steps) = shrink::<P>(tree, f, &known, &progress);
                    res.failure = Some(FailureRec {
                        signature: best_f.signature,
                        detail: best_f.detail,
                        profile: p.name.to_string(),
                        index: i,
                        case: serde_json::to_value(&best).unwrap_or(Value::Null),
                        original_case: original,
                        shrink_steps: steps,
                    });
                    break 'profiles;
                }
                CaseOutcome::Harness(e) => {
                    res.harness_error = Some(format!(
                        "{e} (profile {} index {i}; case {})",
                        p.name,
                        serde_json::to_string(&case).unwrap_or_default()
                    ));
                    break 'profiles;
                }
            }
        }
    }
    res.nontrivial_hashes = nontrivial.into_iter().collect();
    std::fs::write(&args.out, serde_json::to_vec(&res).unwrap()).expect("write shard result");
    0
}

// ---------------------------------------------------------------------------
// replay

#[derive(Serialize, Deserialize)]
pub struct ReplayFile {
    pub property: String,
    pub signature: String,
    pub detail: String,
    pub seed: u64,
    pub profile: String,
    pub index: u64,
    pub case: Value,
}

/// Returns Ok(None) when the case passes, Ok(Some(failure)) when it fails.
pub fn replay_case<P: Prop>(case: &Value) -> Result<Option<Failure>, String> {
    install_panic_hook();
    crate::alloc_count::track_this_thread();
    let case: P::Case =
        serde_json::from_value(case.clone()).map_err(|e| format!("cannot decode case: {e}"))?;
    let mut obs = Obs {
        strict: true,
        ..Obs::default()
    };
    match run_case::<P>(&case, &mut obs) {
        CaseOutcome::Pass => Ok(None),
        CaseOutcome::Fail(f) => Ok(Some(f)),
        CaseOutcome::Harness(e) => Err(e),
    }
}

pub fn replay<P: Prop>(path: &Path) -> i32 {
    let s = match std::fs::read_to_string(path) {
        Ok(s) => s,
        Err(e) => {
            eprintln!("cannot read {}: {e}", path.display());
            return 2;
        }
    };
    let rf: ReplayFile = match serde_json::from_str(&s) {
        Ok(r) => r,
        Err(e) => {
            eprintln!("cannot parse {}: {e}", path.display());
            return 2;
        }
    };
    match replay_case::<P>(&rf.case) {
        Ok(None) => {
            println!("replay of {} passes (property {} holds on this case)", path.display(), P::ID);
            0
        }
        Ok(Some(f)) => {
            println!("{}: {}", f.signature, f.detail);
            println!("VIOLATION property={} replay={}", P::ID, path.display());
            1
        }
        Err(e) => {
            eprintln!("inconclusive: {e}");
            2
        }
    }
}

// ---------------------------------------------------------------------------
// driver

pub struct DriverArgs {
    pub tier: Tier,
    pub seed: u64,
    pub jobs: u64,
}

fn work_dir(id: &str) -> PathBuf {
    verif_root().join("work").join(id)
}

fn write_replay(id: &str, seed: u64, f: &FailureRec) -> PathBuf {
    let dir = work_dir(id);
    let _ = std::fs::create_dir_all(&dir);
    let path = dir.join(format!("violation_{}_{}.json", f.profile, f.index));
    let rf = ReplayFile {
        property: id.to_string(),
        signature: f.signature.clone(),
        detail: f.detail.clone(),
        seed,
        profile: f.profile.clone(),
        index: f.index,
        case: f.case.clone(),
    };
    std::fs::write(&path, serde_json::to_vec_pretty(&rf).unwrap()).expect("write replay");
    path
}

fn spawn_worker(
    id: &str,
    args: &DriverArgs,
    shard: u64,
    out: &Path,
    only: Option<(&str, u64)>,
    trace: Option<&Path>,
    hang_secs: u64,
) -> std::process::Child {
    let exe = std::env::current_exe().expect("current_exe");
    let mut c = Command::new(exe);
    c.arg("worker")
        .arg(id)
        .arg("--tier")
        .arg(args.tier.name())
        .arg("--seed")
        .arg(args.seed.to_string())
        .arg("--shard")
        .arg(shard.to_string())
        .arg("--nshards")
        .arg(args.jobs.to_string())
        .arg("--out")
        .arg(out)
        .arg("--hang-secs")
        .arg(hang_secs.to_string());
    if let Some((p, i)) = only {
        c.arg("--only").arg(format!("{p}:{i}"));
    }
    if let Some(t) = trace {
        c.arg("--trace").arg(t);
    }
    c.stdin(Stdio::null());
    c.spawn().expect("spawn worker")
}

fn wait_timeout(child: &mut std::process::Child, limit: Duration) -> Option<std::process::ExitStatus> {
    let t0 = Instant::now();
    loop {
        match child.try_wait() {
            Ok(Some(s)) => return Some(s),
            Ok(None) => {
                if t0.elapsed() > limit {
                    let _ = child.kill();
                    let _ = child.wait();
                    return None;
                }
                std::thread::sleep(Duration::from_millis(50));
            }
            Err(_) => return None,
        }
    }
}

/// Generate a case in a child process (a generator that calls into the code under test,
/// e.g. a validating filter, may itself hang on a broken tree).
fn gen_case_json_guarded(id: &str, seed: u64, profile: &str, index: u64) -> Value {
    let Ok(exe) = std::env::current_exe() else { return Value::Null };
    let Ok(mut child) = Command::new(exe)
        .arg("gen")
        .arg(id)
        .arg(profile)
        .arg(index.to_string())
        .arg("--seed")
        .arg(seed.to_string())
        .stdin(Stdio::null())
        .stdout(Stdio::piped())
        .stderr(Stdio::null())
        .spawn()
    else {
        return Value::Null;
    };
    // read the output on a thread so a large case cannot block the pipe
    let mut out = child.stdout.take();
    let reader = std::thread::spawn(move || {
        let mut s = String::new();
        if let Some(o) = out.as_mut() {
            use std::io::Read;
            let _ = o.read_to_string(&mut s);
        }
        s
    });
    match wait_timeout(&mut child, Duration::from_secs(60)) {
        Some(st) if st.success() => {
            let s = reader.join().unwrap_or_default();
            serde_json::from_str(&s).unwrap_or(Value::Null)
        }
        _ => json!({"generator_did_not_return": format!("{id} {profile} {index} (seed {seed})")}),
    }
}

pub fn gen_case_json<P: Prop>(seed: u64, profile: &str, index: u64) -> Value {
    let strat = P::strategy(profile);
    let mut runner = runner_for(seed, P::ID, profile, index);
    match strat.new_tree(&mut runner) {
        Ok(t) => serde_json::to_value(t.current()).unwrap_or(Value::Null),
        Err(_) => Value::Null,
    }
}

pub fn driver<P: Prop>(args: &DriverArgs) -> i32 {
    let t0 = Instant::now();
    let id = P::ID;
    let known = load_known(id);
    let dir = work_dir(id);
    let _ = std::fs::remove_dir_all(&dir);
    std::fs::create_dir_all(&dir).expect("work dir");

    if let Err(e) = crate::rng::self_test() {
        eprintln!("inconclusive: {e}");
        return 2;
    }

    let mut violations: Vec<(String, PathBuf)> = vec![];
    let mut known_seen: BTreeMap<String, u64> = BTreeMap::new();
    let mut inconclusive: Vec<String> = vec![];
    let mut notes: Vec<String> = vec![];

    // 1. committed regression inputs first
    let mut replayed = 0u64;
    let rdir = verif_root().join("replays").join(id);
    if let Ok(rd) = std::fs::read_dir(&rdir) {
        let mut files: Vec<PathBuf> = rd.filter_map(|e| e.ok().map(|e| e.path())).collect();
        files.sort();
        for f in files {
            if f.extension().map(|e| e != "json").unwrap_or(true) {
                continue;
            }
            let Ok(s) = std::fs::read_to_string(&f) else { continue };
            let Ok(rf) = serde_json::from_str::<ReplayFile>(&s) else {
                inconclusive.push(format!("unreadable replay file {}", f.display()));
                continue;
            };
            replayed += 1;
            match replay_case::<P>(&rf.case) {
                Ok(None) => {}
                Ok(Some(fl)) => {
                    if known.iter().any(|k| k.signature == fl.signature) {
                        *known_seen.entry(fl.signature).or_insert(0) += 1;
                    } else {
                        println!("{}: {}", fl.signature, fl.detail);
                        violations.push((fl.signature, f.clone()));
                    }
                }
                Err(e) => inconclusive.push(e),
            }
        }
    }

    // 2. generated cases, sharded over worker processes
    let mut children = vec![];
    for k in 0..args.jobs {
        let out = dir.join(format!("shard_{k}.json"));
        children.push((k, out.clone(), spawn_worker(id, args, k, &out, None, None, 30)));
    }
    let mut total = ShardResult::default();
    let mut nontrivial: HashSet<u64> = HashSet::new();
    let mut suspects: Vec<(u64, String, u64, std::process::Child)> = vec![];
    for (k, out, mut child) in children {
        let status = child.wait().expect("wait worker");
        let code = status.code();
        let res: Option<ShardResult> = std::fs::read(&out)
            .ok()
            .and_then(|b| serde_json::from_slice(&b).ok());
        match (code, res) {
            (Some(0), Some(r)) => {
                total.evaluations += r.evaluations;
                for (c, v) in r.classes {
                    *total.classes.entry(c).or_insert(0) += v;
                }
                for (c, v) in r.known {
                    *known_seen.entry(c).or_insert(0) += v;
                }
                for (c, v) in r.per_profile {
                    *total.per_profile.entry(c).or_insert(0) += v;
                }
                nontrivial.extend(r.nontrivial_hashes);
                for s in r.samples {
                    if total.samples.len() < 4 {
                        total.samples.push(s);
                    }
                }
                if let Some(f) = r.failure {
                    if !violations.iter().any(|(s, _)| *s == f.signature) {
                        println!("{}: {}", f.signature, f.detail);
                    }
                    let p = write_replay(id, args.seed, &f);
                    violations.push((f.signature.clone(), p));
                }
                if let Some(e) = r.harness_error {
                    inconclusive.push(format!("shard {k}: {e}"));
                }
            }
            (Some(3), Some(r)) if r.hang.is_some() => {
                // suspected hang: confirmed below, all suspects in parallel
                let (profile, index) = r.hang.unwrap();
                let out2 = dir.join(format!("hang_{k}.json"));
                let c2 = spawn_worker(id, args, k, &out2, Some((&profile, index)), None, 100_000);
                suspects.push((k, profile, index, c2));
            }
            (code, _) => {
                // abnormal death (signal: stack overflow, abort): locate the case
                let trace = dir.join(format!("trace_{k}.txt"));
                let out2 = dir.join(format!("crash_{k}.json"));
                let mut c2 = spawn_worker(id, args, k, &out2, None, Some(&trace), 60);
                let st2 = c2.wait().ok();
                let last = std::fs::read_to_string(&trace)
                    .ok()
                    .and_then(|s| s.lines().last().map(|l| l.to_string()));
                match (st2.and_then(|s| s.code()), last) {
                    (Some(0), _) => inconclusive.push(format!(
                        "shard {k} died (exit {code:?}) but completed when re-run"
                    )),
                    (_, Some(l)) => {
                        let mut it = l.split_whitespace();
                        let profile = it.next().unwrap_or("").to_string();
                        let index: u64 = it.next().and_then(|x| x.parse().ok()).unwrap_or(0);
                        let case = gen_case_json_guarded(id, args.seed, &profile, index);
                        let f = FailureRec {
                            signature: "crash: worker process killed by a signal (stack overflow or abort)".into(),
                            detail: format!("worker died twice at case {profile}:{index} (status {code:?})"),
                            profile,
                            index,
                            case: case.clone(),
                            original_case: case,
                            shrink_steps: 0,
                        };
                        println!("{}: {}", f.signature, f.detail);
                        let p = write_replay(id, args.seed, &f);
                        violations.push((f.signature.clone(), p));
                    }
                    _ => inconclusive.push(format!("shard {k} died (exit {code:?}) and could not be located")),
                }
            }
        }
    }

    // suspected hangs: each case runs alone; only one that again does not return counts
    let confirm_deadline = Instant::now() + Duration::from_secs(90);
    for (k, profile, index, mut c2) in suspects {
        let left = confirm_deadline.saturating_duration_since(Instant::now());
        match wait_timeout(&mut c2, left.max(Duration::from_secs(1))) {
            None => {
                let sig = "no-return: call did not return within 90 s".to_string();
                let case = gen_case_json_guarded(id, args.seed, &profile, index);
                let sig = refine_hang_signature(&sig, &case);
                if known.iter().any(|kf| kf.signature == sig) {
                    *known_seen.entry(sig).or_insert(0) += 1;
                    notes.push(format!(
                        "shard {k} stopped at a known non-returning case ({profile} {index}); the remaining cases of that shard were not run"
                    ));
                } else {
                    let f = FailureRec {
                        signature: sig.clone(),
                        detail: format!("case {profile}:{index} made no progress for 30 s and did not return within 90 s when run alone"),
                        profile,
                        index,
                        case: case.clone(),
                        original_case: case,
                        shrink_steps: 0,
                    };
                    println!("{}: {}", f.signature, f.detail);
                    let p = write_replay(id, args.seed, &f);
                    violations.push((sig, p));
                }
            }
            Some(_) => inconclusive.push(format!(
                "shard {k}: case {profile}:{index} stalled for 30 s but returned when re-run alone"
            )),
        }
    }

    // 3. vacuity guard
    for c in P::required_classes() {
        if total.classes.get(c).copied().unwrap_or(0) == 0 && violations.is_empty() {
            inconclusive.push(format!("required class '{c}' was never generated (generator bug)"));
        }
    }

    for (sig, n) in &known_seen {
        println!("KNOWN-FINDING: property={id} {sig} (met {n} times)");
    }

    // 4. evidence
    let wall = t0.elapsed().as_secs_f64();
    let ev = json!({
        "property_id": id,
        "tier": args.tier.name(),
        "seed": args.seed,
        "level": "exploration",
        "coverage": {
            "evaluations": total.evaluations + replayed,
            "distinct_nontrivial": nontrivial.len(),
            "rule": P::RULE,
            "samples": total.samples,
            "classes": total.classes,
            "per_profile": total.per_profile,
            "replayed_regression_inputs": replayed,
            "excluded_known": known_seen,
            "exhaustive": P::exhaustive(args.tier),
            "inconclusive": inconclusive,
            "notes": notes,
        },
        "assumptions": P::assumptions(),
        "wall_s": wall,
        "violations": violations.len(),
    });
    let evdir = verif_root().join("evidence");
    let _ = std::fs::create_dir_all(&evdir);
    std::fs::write(
        evdir.join(format!("{id}.json")),
        serde_json::to_vec_pretty(&ev).unwrap(),
    )
    .expect("write evidence");

    println!(
        "{id} {}: {} cases, {} distinct non-trivial, {} known-finding hits, {:.1}s",
        args.tier.name(),
        total.evaluations + replayed,
        nontrivial.len(),
        known_seen.values().sum::<u64>(),
        wall
    );
    if !violations.is_empty() {
        // one line per distinct signature; keep the smallest replay file
        let mut by_sig: BTreeMap<String, PathBuf> = BTreeMap::new();
        for (sig, p) in &violations {
            let size = |p: &PathBuf| std::fs::metadata(p).map(|m| m.len()).unwrap_or(u64::MAX);
            match by_sig.get(sig) {
                Some(q) if size(q) <= size(p) => {}
                _ => {
                    by_sig.insert(sig.clone(), p.clone());
                }
            }
        }
        for (sig, p) in &by_sig {
            println!("violation: {sig}");
            println!("VIOLATION property={id} replay={}", p.display());
        }
        return 1;
    }
    if !inconclusive.is_empty() {
        for i in &inconclusive {
            eprintln!("inconclusive: {i}");
        }
        return 2;
    }
    0
}

/// Hang signatures are refined by the property modules through this hook: the
/// default keeps the generic text.
fn refine_hang_signature(sig: &str, case: &Value) -> String {
    if let Some(f) = case.get("hang_signature_hint").and_then(|v| v.as_str()) {
        return format!("no-return: {f}");
    }
    sig.to_string()
}

/// `mbn-verif gen <ID> <profile> <index>`: print the generated case
pub fn print_case<P: Prop>(args: &(u64, String, u64)) -> i32 {
    println!("{}", serde_json::to_string_pretty(&gen_case_json::<P>(args.0, &args.1, args.2)).unwrap());
    0
}

// ---------------------------------------------------------------------------
// coverage-guided fuzzing: the fuzzer's input is a case in its replay (JSON) form; a custom
// mutator edits the JSON tree structurally (numbers, flags, float bit patterns, list elements).
//
// (Driving the proptest strategies with the fuzzer's bytes through RngAlgorithm::PassThrough was
// tried first and does not work: every prop_oneof!/Union keeps lazily generated alternatives that
// fork the byte stream in half, so a few dozen unions exhaust any input, and on the zeros an
// exhausted stream hands out rand's uniform integer sampling never terminates.)

/// Decode a fuzzer input into a case.
pub fn case_from_bytes<P: Prop>(data: &[u8]) -> Option<P::Case> {
    serde_json::from_slice::<P::Case>(data).ok()
}

thread_local! {
    static FUZZ_KNOWN: RefCell<Option<Vec<KnownFinding>>> = const { RefCell::new(None) };
}

/// One fuzz iteration: returns Err(replay file path) on a violation that is not a listed finding.
pub fn fuzz_one<P: Prop>(profile: &str, data: &[u8]) -> Result<(), String> {
    use std::sync::Once;
    static HOOK: Once = Once::new();
    HOOK.call_once(|| {
        install_panic_hook();
        crate::alloc_count::track_this_thread();
    });
    let Some(case) = case_from_bytes::<P>(data) else { return Ok(()) };
    if !P::admissible(&case) {
        return Ok(());
    }
    let known_listed = FUZZ_KNOWN.with(|k| {
        let mut k = k.borrow_mut();
        if k.is_none() {
            *k = Some(load_known(P::ID));
        }
        k.as_ref().unwrap().clone()
    });
    let mut obs = Obs::default();
    match run_case::<P>(&case, &mut obs) {
        CaseOutcome::Pass => Ok(()),
        // a mutated case that violates a precondition of the oracle (e.g. an invalid machine where
        // the property speaks of validated ones) is not a finding
        CaseOutcome::Harness(_) => Ok(()),
        CaseOutcome::Fail(f) => {
            if known_listed.iter().any(|k| k.signature == f.signature) {
                return Ok(());
            }
            let rec = FailureRec {
                signature: f.signature.clone(),
                detail: f.detail.clone(),
                profile: format!("fuzz_{profile}"),
                index: fingerprint(&case) % 1_000_000_007,
                case: serde_json::to_value(&case).unwrap_or(Value::Null),
                original_case: Value::Null,
                shrink_steps: 0,
            };
            let p = write_replay(P::ID, 0, &rec);
            eprintln!("{}: {}", f.signature, f.detail);
            eprintln!("VIOLATION property={} replay={}", P::ID, p.display());
            Err(p.display().to_string())
        }
    }
}

struct Xs(u64);
impl Xs {
    fn next(&mut self) -> u64 {
        self.0 ^= self.0 << 13;
        self.0 ^= self.0 >> 7;
        self.0 ^= self.0 << 17;
        self.0
    }
    fn below(&mut self, n: usize) -> usize {
        if n == 0 {
            0
        } else {
            (self.next() % n as u64) as usize
        }
    }
}

fn mutate_float_string(s: &str, r: &mut Xs) -> Option<String> {
    // "display#hexbits" with 16 (f64) or 8 (f32) hex digits
    let hex = s.rsplit('#').next()?;
    if !s.contains('#') || !(hex.len() == 16 || hex.len() == 8) {
        return None;
    }
    let bits = u64::from_str_radix(hex, 16).ok()?;
    let wide = hex.len() == 16;
    let specials64: [u64; 10] = [
        0,
        0x8000_0000_0000_0000,
        1,
        0x3ff0_0000_0000_0000,
        0x3fe0_0000_0000_0000,
        0x7ff0_0000_0000_0000,
        0x7ff8_0000_0000_0000,
        0x3e11_2e0b_e826_d695, // 1e-9
        0x4234_1dd7_6000_0000, // 86.4e9
        0x7fef_ffff_ffff_ffff,
    ];
    let specials32: [u64; 8] = [0, 0x8000_0000, 1, 0x3f80_0000, 0x3f00_0000, 0x7f80_0000, 0x7fc0_0000, 0x3e80_0000];
    let nb = match r.below(5) {
        0 => bits ^ (1u64 << r.below(if wide { 64 } else { 32 })),
        1 => bits.wrapping_add(1),
        2 => bits.wrapping_sub(1),
        3 => {
            if wide {
                specials64[r.below(specials64.len())]
            } else {
                specials32[r.below(specials32.len())]
            }
        }
        _ => {
            if wide {
                let v = f64::from_bits(bits);
                (if r.below(2) == 0 { v * 2.0 } else { v * 0.5 }).to_bits()
            } else {
                let v = f32::from_bits(bits as u32);
                (if r.below(2) == 0 { v * 2.0 } else { v * 0.5 }).to_bits() as u64
            }
        }
    };
    Some(if wide { format!("m#{nb:016x}") } else { format!("m#{:08x}", nb as u32) })
}

fn mutate_value(v: &mut Value, r: &mut Xs, depth: u32) {
    match v {
        Value::Null => {}
        Value::Bool(b) => *b = !*b,
        Value::Number(n) => {
            if let Some(u) = n.as_u64() {
                let nv = match r.below(9) {
                    0 => u.wrapping_add(1),
                    1 => u.wrapping_sub(1),
                    2 => u / 2,
                    3 => u.saturating_mul(2),
                    4 => 0,
                    5 => 1,
                    6 => u64::MAX,
                    7 => r.next() % 8,
                    _ => r.next() % 100_000,
                };
                *v = Value::from(nv);
            } else if let Some(i) = n.as_i64() {
                *v = Value::from(i.wrapping_neg());
            }
        }
        Value::String(s) => {
            if let Some(m) = mutate_float_string(s, r) {
                *s = m;
            }
        }
        Value::Array(a) => {
            // structural edit of the list, or descend
            let choice = if a.is_empty() || depth > 40 { 9 } else { r.below(10) };
            match choice {
                0 => {
                    let i = r.below(a.len());
                    a.remove(i);
                }
                1 => {
                    let i = r.below(a.len());
                    let e = a[i].clone();
                    a.insert(i, e);
                }
                2 => {
                    let (i, j) = (r.below(a.len()), r.below(a.len()));
                    a.swap(i, j);
                }
                3 => {
                    // copy one element over another (same shape)
                    let (i, j) = (r.below(a.len()), r.below(a.len()));
                    let e = a[i].clone();
                    a[j] = e;
                }
                9 => {}
                _ => {
                    let i = r.below(a.len());
                    mutate_value(&mut a[i], r, depth + 1);
                }
            }
        }
        Value::Object(o) => {
            if o.is_empty() {
                return;
            }
            let i = r.below(o.len());
            if let Some((_, child)) = o.iter_mut().nth(i) {
                mutate_value(child, r, depth + 1);
            }
        }
    }
}

/// Custom libFuzzer mutator: edit the JSON form of a case. Returns the new size, or None when the
/// input is not JSON (the caller then falls back to libFuzzer's byte mutations).
pub fn mutate_json(data: &mut [u8], size: usize, max_size: usize, seed: u32) -> Option<usize> {
    let mut v: Value = serde_json::from_slice(&data[..size]).ok()?;
    let mut r = Xs((seed as u64).wrapping_mul(0x9E37_79B9_7F4A_7C15) | 1);
    for _ in 0..1 + r.below(3) {
        mutate_value(&mut v, &mut r, 0);
    }
    let out = serde_json::to_vec(&v).ok()?;
    if out.len() > max_size || out.len() > data.len() {
        return Some(size);
    }
    data[..out.len()].copy_from_slice(&out);
    Some(out.len())
}

/// `mbn-verif corpus <ID> <profile> <dir> <count>`: write generated cases as fuzzer seed inputs
pub fn write_corpus<P: Prop>(args: &(u64, String, String, u64)) -> i32 {
    let (seed, profile, dir, count) = args;
    let _ = std::fs::create_dir_all(dir);
    let strat = P::strategy(profile);
    for i in 0..*count {
        let mut runner = runner_for(seed.wrapping_add(0x5eed), P::ID, profile, i);
        if let Ok(t) = strat.new_tree(&mut runner) {
            if let Ok(b) = serde_json::to_vec(&t.current()) {
                if b.len() <= 200_000 {
                    let _ = std::fs::write(format!("{dir}/gen_{i:04}.json"), b);
                }
            }
        }
    }
    0
}

/// `mbn-verif fuzzcase <ID> <profile> <file>`: run one saved fuzzer input through the normal binary
pub fn fuzz_file<P: Prop>(args: &(String, String)) -> i32 {
    let data = std::fs::read(&args.1).expect("read input");
    let t0 = Instant::now();
    let case = case_from_bytes::<P>(&data);
    eprintln!("generation took {:?}, case generated: {}", t0.elapsed(), case.is_some());
    let r = fuzz_one::<P>(&args.0, &data);
    eprintln!("total {:?}: {:?}", t0.elapsed(), r);
    if r.is_err() { 1 } else { 0 }
}
