//! Serializable, generator-friendly descriptions of machines, events and
//! histories. Everything a check generates is expressed in these types so that
//! a failing case can be written to a replay file and read back exactly
//! (floats are stored with their bit pattern).

use enum_map::{enum_map, EnumMap};
use maybenot::action::Action;
use maybenot::constants::{STATE_END, STATE_SIGNAL};
use maybenot::counter::{Counter, Operation};
use maybenot::dist::{Dist, DistType};
use maybenot::event::Event;
use maybenot::state::{State, Trans};
use maybenot::{Machine, MachineId, Timer, TriggerEvent};
use serde::de::Error as _;
use serde::{Deserialize, Deserializer, Serialize, Serializer};

pub const EVENTS: [Event; 13] = [
    Event::NormalRecv,
    Event::PaddingRecv,
    Event::TunnelRecv,
    Event::NormalSent,
    Event::PaddingSent,
    Event::TunnelSent,
    Event::BlockingBegin,
    Event::BlockingEnd,
    Event::LimitReached,
    Event::CounterZero,
    Event::TimerBegin,
    Event::TimerEnd,
    Event::Signal,
];

pub fn event_idx(e: Event) -> usize {
    e.to_usize()
}

/// f64 with exact (bit pattern) serialization: "display#hexbits".
#[derive(Clone, Copy, Debug, Default)]
pub struct Fx(pub f64);

impl PartialEq for Fx {
    fn eq(&self, o: &Self) -> bool {
        self.0.to_bits() == o.0.to_bits()
    }
}

impl Serialize for Fx {
    fn serialize<S: Serializer>(&self, s: S) -> Result<S::Ok, S::Error> {
        s.serialize_str(&format!("{:?}#{:016x}", self.0, self.0.to_bits()))
    }
}

impl<'de> Deserialize<'de> for Fx {
    fn deserialize<D: Deserializer<'de>>(d: D) -> Result<Self, D::Error> {
        let s = String::deserialize(d)?;
        let hex = s.rsplit('#').next().ok_or_else(|| D::Error::custom("bad f64"))?;
        let bits = u64::from_str_radix(hex, 16).map_err(D::Error::custom)?;
        Ok(Fx(f64::from_bits(bits)))
    }
}

/// f32 with exact serialization.
#[derive(Clone, Copy, Debug, Default)]
pub struct Fs(pub f32);

impl PartialEq for Fs {
    fn eq(&self, o: &Self) -> bool {
        self.0.to_bits() == o.0.to_bits()
    }
}

impl Serialize for Fs {
    fn serialize<S: Serializer>(&self, s: S) -> Result<S::Ok, S::Error> {
        s.serialize_str(&format!("{:?}#{:08x}", self.0, self.0.to_bits()))
    }
}

impl<'de> Deserialize<'de> for Fs {
    fn deserialize<D: Deserializer<'de>>(d: D) -> Result<Self, D::Error> {
        let s = String::deserialize(d)?;
        let hex = s.rsplit('#').next().ok_or_else(|| D::Error::custom("bad f32"))?;
        let bits = u32::from_str_radix(hex, 16).map_err(D::Error::custom)?;
        Ok(Fs(f32::from_bits(bits)))
    }
}

#[derive(Clone, Copy, Debug, PartialEq, Serialize, Deserialize)]
pub enum DistKind {
    Uniform { low: Fx, high: Fx },
    Normal { mean: Fx, stdev: Fx },
    SkewNormal { location: Fx, scale: Fx, shape: Fx },
    LogNormal { mu: Fx, sigma: Fx },
    Binomial { trials: u64, probability: Fx },
    Geometric { probability: Fx },
    Pareto { scale: Fx, shape: Fx },
    Poisson { lambda: Fx },
    Weibull { scale: Fx, shape: Fx },
    Gamma { scale: Fx, shape: Fx },
    Beta { alpha: Fx, beta: Fx },
}

impl DistKind {
    pub fn family(&self) -> &'static str {
        match self {
            DistKind::Uniform { .. } => "Uniform",
            DistKind::Normal { .. } => "Normal",
            DistKind::SkewNormal { .. } => "SkewNormal",
            DistKind::LogNormal { .. } => "LogNormal",
            DistKind::Binomial { .. } => "Binomial",
            DistKind::Geometric { .. } => "Geometric",
            DistKind::Pareto { .. } => "Pareto",
            DistKind::Poisson { .. } => "Poisson",
            DistKind::Weibull { .. } => "Weibull",
            DistKind::Gamma { .. } => "Gamma",
            DistKind::Beta { .. } => "Beta",
        }
    }
}

#[derive(Clone, Copy, Debug, PartialEq, Serialize, Deserialize)]
pub struct DistSpec {
    pub kind: DistKind,
    pub start: Fx,
    pub max: Fx,
}

impl DistSpec {
    pub fn constant(v: f64) -> Self {
        DistSpec {
            kind: DistKind::Uniform {
                low: Fx(v),
                high: Fx(v),
            },
            start: Fx(0.0),
            max: Fx(0.0),
        }
    }

    /// Some(v) when the distribution is a constant that consumes no randomness.
    pub fn as_constant(&self) -> Option<f64> {
        if let DistKind::Uniform { low, high } = self.kind {
            if low.0 == high.0 {
                let mut r: f64 = 0.0;
                r = r.max(low.0 + self.start.0);
                if self.max.0 > 0.0 {
                    r = r.min(self.max.0);
                }
                return Some(r);
            }
        }
        None
    }

    pub fn to_dist(&self) -> Dist {
        let dist = match self.kind {
            DistKind::Uniform { low, high } => DistType::Uniform {
                low: low.0,
                high: high.0,
            },
            DistKind::Normal { mean, stdev } => DistType::Normal {
                mean: mean.0,
                stdev: stdev.0,
            },
            DistKind::SkewNormal {
                location,
                scale,
                shape,
            } => DistType::SkewNormal {
                location: location.0,
                scale: scale.0,
                shape: shape.0,
            },
            DistKind::LogNormal { mu, sigma } => DistType::LogNormal {
                mu: mu.0,
                sigma: sigma.0,
            },
            DistKind::Binomial {
                trials,
                probability,
            } => DistType::Binomial {
                trials,
                probability: probability.0,
            },
            DistKind::Geometric { probability } => DistType::Geometric {
                probability: probability.0,
            },
            DistKind::Pareto { scale, shape } => DistType::Pareto {
                scale: scale.0,
                shape: shape.0,
            },
            DistKind::Poisson { lambda } => DistType::Poisson { lambda: lambda.0 },
            DistKind::Weibull { scale, shape } => DistType::Weibull {
                scale: scale.0,
                shape: shape.0,
            },
            DistKind::Gamma { scale, shape } => DistType::Gamma {
                scale: scale.0,
                shape: shape.0,
            },
            DistKind::Beta { alpha, beta } => DistType::Beta {
                alpha: alpha.0,
                beta: beta.0,
            },
        };
        Dist {
            dist,
            start: self.start.0,
            max: self.max.0,
        }
    }

    pub fn from_dist(d: &Dist) -> Self {
        let kind = match d.dist {
            DistType::Uniform { low, high } => DistKind::Uniform {
                low: Fx(low),
                high: Fx(high),
            },
            DistType::Normal { mean, stdev } => DistKind::Normal {
                mean: Fx(mean),
                stdev: Fx(stdev),
            },
            DistType::SkewNormal {
                location,
                scale,
                shape,
            } => DistKind::SkewNormal {
                location: Fx(location),
                scale: Fx(scale),
                shape: Fx(shape),
            },
            DistType::LogNormal { mu, sigma } => DistKind::LogNormal {
                mu: Fx(mu),
                sigma: Fx(sigma),
            },
            DistType::Binomial {
                trials,
                probability,
            } => DistKind::Binomial {
                trials,
                probability: Fx(probability),
            },
            DistType::Geometric { probability } => DistKind::Geometric {
                probability: Fx(probability),
            },
            DistType::Pareto { scale, shape } => DistKind::Pareto {
                scale: Fx(scale),
                shape: Fx(shape),
            },
            DistType::Poisson { lambda } => DistKind::Poisson { lambda: Fx(lambda) },
            DistType::Weibull { scale, shape } => DistKind::Weibull {
                scale: Fx(scale),
                shape: Fx(shape),
            },
            DistType::Gamma { scale, shape } => DistKind::Gamma {
                scale: Fx(scale),
                shape: Fx(shape),
            },
            DistType::Beta { alpha, beta } => DistKind::Beta {
                alpha: Fx(alpha),
                beta: Fx(beta),
            },
        };
        DistSpec {
            kind,
            start: Fx(d.start),
            max: Fx(d.max),
        }
    }
}

#[derive(Clone, Copy, Debug, PartialEq, Serialize, Deserialize)]
pub enum ActionSpec {
    /// timer: 0 Action, 1 Internal, 2 All
    Cancel { timer: u8 },
    Pad {
        bypass: bool,
        replace: bool,
        timeout: DistSpec,
        limit: Option<DistSpec>,
    },
    Block {
        bypass: bool,
        replace: bool,
        timeout: DistSpec,
        duration: DistSpec,
        limit: Option<DistSpec>,
    },
    Timer {
        replace: bool,
        duration: DistSpec,
        limit: Option<DistSpec>,
    },
}

pub fn timer_of(t: u8) -> Timer {
    match t {
        0 => Timer::Action,
        1 => Timer::Internal,
        _ => Timer::All,
    }
}

pub fn timer_idx(t: Timer) -> u8 {
    match t {
        Timer::Action => 0,
        Timer::Internal => 1,
        Timer::All => 2,
    }
}

impl ActionSpec {
    pub fn to_action(&self) -> Action {
        match *self {
            ActionSpec::Cancel { timer } => Action::Cancel {
                timer: timer_of(timer),
            },
            ActionSpec::Pad {
                bypass,
                replace,
                timeout,
                limit,
            } => Action::SendPadding {
                bypass,
                replace,
                timeout: timeout.to_dist(),
                limit: limit.map(|l| l.to_dist()),
            },
            ActionSpec::Block {
                bypass,
                replace,
                timeout,
                duration,
                limit,
            } => Action::BlockOutgoing {
                bypass,
                replace,
                timeout: timeout.to_dist(),
                duration: duration.to_dist(),
                limit: limit.map(|l| l.to_dist()),
            },
            ActionSpec::Timer {
                replace,
                duration,
                limit,
            } => Action::UpdateTimer {
                replace,
                duration: duration.to_dist(),
                limit: limit.map(|l| l.to_dist()),
            },
        }
    }

    pub fn from_action(a: &Action) -> Self {
        match a {
            Action::Cancel { timer } => ActionSpec::Cancel {
                timer: timer_idx(*timer),
            },
            Action::SendPadding {
                bypass,
                replace,
                timeout,
                limit,
            } => ActionSpec::Pad {
                bypass: *bypass,
                replace: *replace,
                timeout: DistSpec::from_dist(timeout),
                limit: limit.as_ref().map(DistSpec::from_dist),
            },
            Action::BlockOutgoing {
                bypass,
                replace,
                timeout,
                duration,
                limit,
            } => ActionSpec::Block {
                bypass: *bypass,
                replace: *replace,
                timeout: DistSpec::from_dist(timeout),
                duration: DistSpec::from_dist(duration),
                limit: limit.as_ref().map(DistSpec::from_dist),
            },
            Action::UpdateTimer {
                replace,
                duration,
                limit,
            } => ActionSpec::Timer {
                replace: *replace,
                duration: DistSpec::from_dist(duration),
                limit: limit.as_ref().map(DistSpec::from_dist),
            },
        }
    }

    pub fn limit(&self) -> Option<&DistSpec> {
        match self {
            ActionSpec::Cancel { .. } => None,
            ActionSpec::Pad { limit, .. }
            | ActionSpec::Block { limit, .. }
            | ActionSpec::Timer { limit, .. } => limit.as_ref(),
        }
    }

    pub fn dists(&self) -> Vec<&DistSpec> {
        let mut v = vec![];
        match self {
            ActionSpec::Cancel { .. } => {}
            ActionSpec::Pad { timeout, limit, .. } => {
                v.push(timeout);
                if let Some(l) = limit {
                    v.push(l)
                }
            }
            ActionSpec::Block {
                timeout,
                duration,
                limit,
                ..
            } => {
                v.push(timeout);
                v.push(duration);
                if let Some(l) = limit {
                    v.push(l)
                }
            }
            ActionSpec::Timer {
                duration, limit, ..
            } => {
                v.push(duration);
                if let Some(l) = limit {
                    v.push(l)
                }
            }
        }
        v
    }
}

#[derive(Clone, Copy, Debug, PartialEq, Serialize, Deserialize)]
pub struct CounterSpec {
    /// 0 increment, 1 decrement, 2 set
    pub op: u8,
    pub dist: Option<DistSpec>,
    pub copy: bool,
}

impl CounterSpec {
    pub fn to_counter(&self) -> Counter {
        Counter {
            operation: match self.op {
                0 => Operation::Increment,
                1 => Operation::Decrement,
                _ => Operation::Set,
            },
            dist: self.dist.map(|d| d.to_dist()),
            copy: self.copy,
        }
    }
    pub fn from_counter(c: &Counter) -> Self {
        CounterSpec {
            op: match c.operation {
                Operation::Increment => 0,
                Operation::Decrement => 1,
                Operation::Set => 2,
            },
            dist: c.dist.as_ref().map(DistSpec::from_dist),
            copy: c.copy,
        }
    }
}

#[derive(Clone, Debug, PartialEq, Serialize, Deserialize, Default)]
pub struct StateSpec {
    pub action: Option<ActionSpec>,
    pub counter_a: Option<CounterSpec>,
    pub counter_b: Option<CounterSpec>,
    /// (event index 0..13, [(target, probability)])
    pub trans: Vec<(u8, Vec<(usize, Fs)>)>,
}

impl StateSpec {
    pub fn to_state(&self) -> State {
        let mut map: EnumMap<Event, Vec<Trans>> = enum_map! { _ => vec![] };
        for (e, v) in &self.trans {
            let ev = EVENTS[*e as usize % 13];
            map[ev] = v.iter().map(|(t, p)| Trans(*t, p.0)).collect();
        }
        let mut s = State::new(map);
        s.action = self.action.map(|a| a.to_action());
        s.counter = (
            self.counter_a.map(|c| c.to_counter()),
            self.counter_b.map(|c| c.to_counter()),
        );
        s
    }

    pub fn from_state(s: &State) -> Self {
        let t = s.get_transitions();
        let mut trans = vec![];
        for (i, e) in EVENTS.iter().enumerate() {
            if !t[*e].is_empty() {
                trans.push((i as u8, t[*e].iter().map(|t| (t.0, Fs(t.1))).collect()));
            }
        }
        StateSpec {
            action: s.action.as_ref().map(ActionSpec::from_action),
            counter_a: s.counter.0.as_ref().map(CounterSpec::from_counter),
            counter_b: s.counter.1.as_ref().map(CounterSpec::from_counter),
            trans,
        }
    }

    pub fn trans_for(&self, e: Event) -> Option<&Vec<(usize, Fs)>> {
        let i = event_idx(e) as u8;
        self.trans
            .iter()
            .rev()
            .find(|(k, v)| *k == i && !v.is_empty())
            .map(|(_, v)| v)
    }
}

#[derive(Clone, Debug, PartialEq, Serialize, Deserialize)]
pub struct MachineSpec {
    pub allowed_padding_packets: u64,
    pub max_padding_frac: Fx,
    pub allowed_blocked_microsec: u64,
    pub max_blocking_frac: Fx,
    pub states: Vec<StateSpec>,
}

impl MachineSpec {
    /// Build through the public fields, without validation.
    pub fn build_unchecked(&self) -> Machine {
        Machine {
            allowed_padding_packets: self.allowed_padding_packets,
            max_padding_frac: self.max_padding_frac.0,
            allowed_blocked_microsec: self.allowed_blocked_microsec,
            max_blocking_frac: self.max_blocking_frac.0,
            states: self.states.iter().map(|s| s.to_state()).collect(),
        }
    }

    /// Build through `Machine::new` (validating).
    pub fn build(&self) -> Result<Machine, maybenot::Error> {
        Machine::new(
            self.allowed_padding_packets,
            self.max_padding_frac.0,
            self.allowed_blocked_microsec,
            self.max_blocking_frac.0,
            self.states.iter().map(|s| s.to_state()).collect(),
        )
    }

    pub fn from_machine(m: &Machine) -> Self {
        MachineSpec {
            allowed_padding_packets: m.allowed_padding_packets,
            max_padding_frac: Fx(m.max_padding_frac),
            allowed_blocked_microsec: m.allowed_blocked_microsec,
            max_blocking_frac: Fx(m.max_blocking_frac),
            states: m.states.iter().map(StateSpec::from_state).collect(),
        }
    }

    pub fn has_signal_target(&self) -> bool {
        self.states
            .iter()
            .any(|s| s.trans.iter().any(|(_, v)| v.iter().any(|(t, _)| *t == STATE_SIGNAL)))
    }

    pub fn has_end_target(&self) -> bool {
        self.states
            .iter()
            .any(|s| s.trans.iter().any(|(_, v)| v.iter().any(|(t, _)| *t == STATE_END)))
    }

    /// True when no distribution of the machine consumes randomness.
    pub fn all_dists_constant(&self) -> bool {
        self.states.iter().all(|s| {
            s.action
                .map(|a| a.dists().iter().all(|d| d.as_constant().is_some()))
                .unwrap_or(true)
                && s.counter_a
                    .and_then(|c| c.dist)
                    .map(|d| d.as_constant().is_some())
                    .unwrap_or(true)
                && s.counter_b
                    .and_then(|c| c.dist)
                    .map(|d| d.as_constant().is_some())
                    .unwrap_or(true)
        })
    }
}

/// External events, serializable.
#[derive(Clone, Copy, Debug, PartialEq, Eq, Hash, Serialize, Deserialize)]
pub enum Ev {
    NormalRecv,
    PaddingRecv,
    TunnelRecv,
    NormalSent,
    PaddingSent(usize),
    TunnelSent,
    BlockingBegin(usize),
    BlockingEnd,
    TimerBegin(usize),
    TimerEnd(usize),
}

impl Ev {
    pub fn to_trigger(&self) -> TriggerEvent {
        match *self {
            Ev::NormalRecv => TriggerEvent::NormalRecv,
            Ev::PaddingRecv => TriggerEvent::PaddingRecv,
            Ev::TunnelRecv => TriggerEvent::TunnelRecv,
            Ev::NormalSent => TriggerEvent::NormalSent,
            Ev::PaddingSent(m) => TriggerEvent::PaddingSent {
                machine: MachineId::from_raw(m),
            },
            Ev::TunnelSent => TriggerEvent::TunnelSent,
            Ev::BlockingBegin(m) => TriggerEvent::BlockingBegin {
                machine: MachineId::from_raw(m),
            },
            Ev::BlockingEnd => TriggerEvent::BlockingEnd,
            Ev::TimerBegin(m) => TriggerEvent::TimerBegin {
                machine: MachineId::from_raw(m),
            },
            Ev::TimerEnd(m) => TriggerEvent::TimerEnd {
                machine: MachineId::from_raw(m),
            },
        }
    }

    pub fn from_trigger(e: &TriggerEvent) -> Ev {
        match e {
            TriggerEvent::NormalRecv => Ev::NormalRecv,
            TriggerEvent::PaddingRecv => Ev::PaddingRecv,
            TriggerEvent::TunnelRecv => Ev::TunnelRecv,
            TriggerEvent::NormalSent => Ev::NormalSent,
            TriggerEvent::PaddingSent { machine } => Ev::PaddingSent(machine.into_raw()),
            TriggerEvent::TunnelSent => Ev::TunnelSent,
            TriggerEvent::BlockingBegin { machine } => Ev::BlockingBegin(machine.into_raw()),
            TriggerEvent::BlockingEnd => Ev::BlockingEnd,
            TriggerEvent::TimerBegin { machine } => Ev::TimerBegin(machine.into_raw()),
            TriggerEvent::TimerEnd { machine } => Ev::TimerEnd(machine.into_raw()),
        }
    }

    /// The machine-level event this external event is delivered as.
    pub fn event(&self) -> Event {
        match self {
            Ev::NormalRecv => Event::NormalRecv,
            Ev::PaddingRecv => Event::PaddingRecv,
            Ev::TunnelRecv => Event::TunnelRecv,
            Ev::NormalSent => Event::NormalSent,
            Ev::PaddingSent(_) => Event::PaddingSent,
            Ev::TunnelSent => Event::TunnelSent,
            Ev::BlockingBegin(_) => Event::BlockingBegin,
            Ev::BlockingEnd => Event::BlockingEnd,
            Ev::TimerBegin(_) => Event::TimerBegin,
            Ev::TimerEnd(_) => Event::TimerEnd,
        }
    }

    pub fn machine(&self) -> Option<usize> {
        match *self {
            Ev::PaddingSent(m) | Ev::BlockingBegin(m) | Ev::TimerBegin(m) | Ev::TimerEnd(m) => {
                Some(m)
            }
            _ => None,
        }
    }

    pub fn with_machine(&self, m: usize) -> Ev {
        match self {
            Ev::PaddingSent(_) => Ev::PaddingSent(m),
            Ev::BlockingBegin(_) => Ev::BlockingBegin(m),
            Ev::TimerBegin(_) => Ev::TimerBegin(m),
            Ev::TimerEnd(_) => Ev::TimerEnd(m),
            e => *e,
        }
    }
}

/// How the caller's clock moves before a call.
#[derive(Clone, Copy, Debug, PartialEq, Eq, Serialize, Deserialize)]
pub enum Clock {
    Add(u64),
    Sub(u64),
    Set(u64),
}

impl Clock {
    pub fn apply(&self, now: u64) -> u64 {
        match *self {
            Clock::Add(d) => now.saturating_add(d),
            Clock::Sub(d) => now.saturating_sub(d),
            Clock::Set(t) => t,
        }
    }
}

#[derive(Clone, Debug, PartialEq, Serialize, Deserialize)]
pub struct Call {
    pub clock: Clock,
    pub events: Vec<Ev>,
}

/// A complete framework case: machines, fractions, start time, random stream
/// and a history of calls.
#[derive(Clone, Debug, PartialEq, Serialize, Deserialize)]
pub struct FwCase {
    pub machines: Vec<MachineSpec>,
    pub max_padding_frac: Fx,
    pub max_blocking_frac: Fx,
    pub start: u64,
    /// explicit words handed out first (one per draw, see rng.rs)
    pub words: Vec<u64>,
    /// seed of the fair stream that follows
    pub seed: u64,
    pub calls: Vec<Call>,
}

/// A returned action with durations in microseconds of the virtual clock.
#[derive(Clone, Copy, Debug, PartialEq, Eq, Hash, Serialize, Deserialize)]
pub enum Act {
    Cancel {
        m: usize,
        timer: u8,
    },
    Pad {
        m: usize,
        timeout: u64,
        bypass: bool,
        replace: bool,
    },
    Block {
        m: usize,
        timeout: u64,
        duration: u64,
        bypass: bool,
        replace: bool,
    },
    Timer {
        m: usize,
        duration: u64,
        replace: bool,
    },
}

impl Act {
    pub fn machine(&self) -> usize {
        match *self {
            Act::Cancel { m, .. }
            | Act::Pad { m, .. }
            | Act::Block { m, .. }
            | Act::Timer { m, .. } => m,
        }
    }
    pub fn with_machine(&self, m: usize) -> Act {
        let mut a = *self;
        match &mut a {
            Act::Cancel { m: x, .. }
            | Act::Pad { m: x, .. }
            | Act::Block { m: x, .. }
            | Act::Timer { m: x, .. } => *x = m,
        }
        a
    }
}
