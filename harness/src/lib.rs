pub mod alloc_count;
pub mod exact;
pub mod fw;
pub mod gen;
pub mod mirror;
pub mod model;
pub mod props;
pub mod rng;
pub mod rt;
pub mod simmon;
pub mod simrun;
pub mod spec;
pub mod steplog;
pub mod vtime;

#[global_allocator]
static GLOBAL: alloc_count::Counting = alloc_count::Counting;
