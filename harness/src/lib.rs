pub mod fw;
pub mod gen;
pub mod props;
pub mod rng;
pub mod rt;
pub mod spec;
pub mod vtime;
