//! Reference semantics of the framework (C05), written from the documentation
//! in lib.rs / framework.rs / action.rs / counter.rs / constants.rs and the
//! statements of properties C02-C09. It interprets the same machine
//! definitions (as `MachineSpec`) with its own state and its own event agenda.
//!
//! Where the documentation is silent the model follows the pinned tree:
//!  * counters are updated on every transition into a regular state, self-transitions included;
//!  * limits are checked (with the entered state's fresh limit) before the counter update, the
//!    action is scheduled after it, and only if no action is pending for the machine at that point
//!    (an action pending from an earlier event of the same call also suppresses it);
//!  * a transition that schedules nothing leaves a pending action of the same call in place;
//!  * the limit of state 0 is sampled at construction (only if state 0 has an action);
//!  * completions decrement the remaining limit of whatever state the machine is in, limited or not;
//!  * fractions are compared with one floating-point division, `x / y >= limit`;
//!  * sampled limits/timeouts/durations are rounded, sampled counter values truncated.
//!
//! Random draws: one 32-bit word per lookup of a non-empty transition list
//! (r = (w >> 9) * 2^-23); distributions are sampled with the library's own
//! `Dist::sample` on the model's random source, in the documented order (limit
//! on state change; counter A then B; timeout then duration). Every 64-bit
//! entry the model consumes during a call is recorded, so the harness can hand
//! exactly those entries to the real framework and detect any difference in
//! the number or order of draws.

use maybenot::constants::{STATE_END, STATE_SIGNAL};
use maybenot::event::Event;
use rand_core::RngCore;

use crate::rng::{draw_f32, ScriptRng};
use crate::spec::*;

pub const DAY_US: f64 = 86_400_000_000.0;

#[derive(Clone, Debug, PartialEq, Eq)]
pub struct MState {
    pub state: usize,
    pub limit: u64,
    pub padding_sent: u64,
    pub normal_sent: u64,
    pub blocked_us: u64,
    pub ca: u64,
    pub cb: u64,
}

#[derive(Clone, Copy, Debug, PartialEq, Eq)]
enum Pending {
    None,
    Lone(usize),
    Many,
}

/// How the model obtains the outcome of a transition draw.
pub trait Chooser {
    /// `cum`: the f32 cumulative sums of the list. Returns the 64-bit tape entry to use.
    fn transition_word(&mut self, cum: &[f32], rng: &mut ScriptRng) -> u64;
}

/// Draw from the random source (random lock-step).
pub struct FromRng;
impl Chooser for FromRng {
    fn transition_word(&mut self, _cum: &[f32], rng: &mut ScriptRng) -> u64 {
        rng.next_u64()
    }
}

/// Follow a list of outcome indices (bounded-exhaustive enumeration); records
/// how many outcomes each draw had.
pub struct Scripted {
    pub choices: Vec<usize>,
    pub arity: Vec<usize>,
    pub pos: usize,
}

impl Scripted {
    pub fn new(choices: Vec<usize>) -> Self {
        Scripted { choices, arity: vec![], pos: 0 }
    }
}

/// A word whose draw falls into outcome `j` of the list with cumulative sums `cum`
/// (j == cum.len() is the residual "no transition" region), if that region is non-empty.
pub fn representative(cum: &[f32], j: usize) -> Option<u64> {
    let lo = if j == 0 { 0.0f32 } else { cum[j - 1] };
    let hi = if j < cum.len() { cum[j] } else { 1.0f32 };
    if !(lo < hi) {
        return None;
    }
    // smallest k with k*2^-23 >= lo, then step to the middle of the region
    let klo = (lo as f64 * 8_388_608.0).ceil() as u32;
    let khi = ((hi as f64 * 8_388_608.0).ceil() as u32).min(8_388_608);
    if klo >= khi {
        return None;
    }
    let k = klo + (khi - klo) / 2;
    let r = draw_f32(k << 9);
    // the region as the draw sees it
    if !(r >= lo && r < hi) {
        return None;
    }
    Some(crate::rng::word_for_k(k) | 0x0bad_cafe)
}

impl Chooser for Scripted {
    fn transition_word(&mut self, cum: &[f32], _rng: &mut ScriptRng) -> u64 {
        // non-empty outcome regions
        let outcomes: Vec<u64> = (0..=cum.len()).filter_map(|j| representative(cum, j)).collect();
        let want = self.choices.get(self.pos).copied().unwrap_or(0);
        self.arity.push(outcomes.len());
        self.pos += 1;
        outcomes[want.min(outcomes.len() - 1)]
    }
}

#[derive(Clone, Debug)]
pub struct Model {
    pub specs: std::sync::Arc<Vec<MachineSpec>>,
    pub m: Vec<MState>,
    pub gfrac_padding: f64,
    pub gfrac_blocking: f64,
    pub normal: u64,
    pub padding: u64,
    pub blocked_us: u64,
    pub blocking_active: bool,
    pub blocking_started: u64,
    pub start: u64,
    pub now: u64,
    pub rng: ScriptRng,
    // per call
    actions: Vec<Option<Act>>,
    zeroed: Vec<(bool, bool)>,
    pending: Pending,
    /// tape entries consumed during the current call
    pub drawn: Vec<u64>,
    /// statistics
    pub internal_events: u64,
    pub non_first_outcomes: u64,
}

struct Rec<'a> {
    rng: &'a mut ScriptRng,
    log: &'a mut Vec<u64>,
}

impl RngCore for Rec<'_> {
    fn next_u32(&mut self) -> u32 {
        (self.next_u64() >> 32) as u32
    }
    fn next_u64(&mut self) -> u64 {
        let w = self.rng.next_u64();
        self.log.push(w);
        w
    }
    fn fill_bytes(&mut self, dest: &mut [u8]) {
        for chunk in dest.chunks_mut(8) {
            let w = self.next_u64().to_le_bytes();
            chunk.copy_from_slice(&w[..chunk.len()]);
        }
    }
    fn try_fill_bytes(&mut self, dest: &mut [u8]) -> Result<(), rand_core::Error> {
        self.fill_bytes(dest);
        Ok(())
    }
}

fn sat_add(a: u64, b: u64) -> u64 {
    a.saturating_add(b)
}

impl Model {
    pub fn new(case: &FwCase) -> Model {
        let mut rng = ScriptRng::new(&case.words, case.seed);
        let mut drawn = vec![];
        let mut m = vec![];
        for s in &case.machines {
            m.push(MState { state: 0, limit: 0, padding_sent: 0, normal_sent: 0, blocked_us: 0, ca: 0, cb: 0 });
            let _ = s;
        }
        // limits of state 0, in machine order
        for (i, s) in case.machines.iter().enumerate() {
            if let Some(a) = s.states[0].action {
                let mut r = Rec { rng: &mut rng, log: &mut drawn };
                m[i].limit = sample_limit(&a, &mut r);
            }
        }
        let n = case.machines.len();
        Model {
            specs: std::sync::Arc::new(case.machines.clone()),
            m,
            gfrac_padding: case.max_padding_frac.0,
            gfrac_blocking: case.max_blocking_frac.0,
            normal: 0,
            padding: 0,
            blocked_us: 0,
            blocking_active: false,
            blocking_started: case.start,
            start: case.start,
            now: case.start,
            rng,
            actions: vec![None; n],
            zeroed: vec![(false, false); n],
            pending: Pending::None,
            drawn,
            internal_events: 0,
            non_first_outcomes: 0,
        }
    }

    /// One call to trigger_events. Returns the actions in machine order.
    pub fn call(&mut self, events: &[Ev], now: u64, ch: &mut dyn Chooser) -> Vec<Act> {
        let n = self.m.len();
        self.drawn.clear();
        self.actions.iter_mut().for_each(|a| *a = None);
        self.zeroed.iter_mut().for_each(|z| *z = (false, false));
        self.now = now;
        for e in events {
            self.external(e, ch);
        }
        // one round of signals at the end of the call
        let pending = std::mem::replace(&mut self.pending, Pending::None);
        if pending != Pending::None {
            let excluded = match pending {
                Pending::Lone(x) => Some(x),
                _ => None,
            };
            for mi in 0..n {
                if Some(mi) == excluded {
                    continue;
                }
                self.internal_events += 1;
                self.deliver(mi, Event::Signal, ch);
            }
            // somebody answered: the lone signaller gets its one signal too
            let answered = std::mem::replace(&mut self.pending, Pending::None) != Pending::None;
            if answered {
                if let Some(x) = excluded {
                    self.internal_events += 1;
                    self.deliver(x, Event::Signal, ch);
                }
            }
            // whatever was raised by the last delivery cannot be delivered in this call anymore
            self.pending = Pending::None;
        }
        self.actions.iter().flatten().copied().collect()
    }

    fn external(&mut self, e: &Ev, ch: &mut dyn Chooser) {
        let n = self.m.len();
        match *e {
            Ev::NormalRecv | Ev::PaddingRecv | Ev::TunnelRecv | Ev::TunnelSent => {
                for mi in 0..n {
                    self.deliver(mi, e.event(), ch);
                }
            }
            Ev::NormalSent => {
                self.normal += 1;
                for mi in 0..n {
                    self.m[mi].normal_sent += 1;
                    self.deliver(mi, Event::NormalSent, ch);
                }
            }
            Ev::PaddingSent(mi) => {
                self.padding += 1;
                if mi < n {
                    self.m[mi].padding_sent += 1;
                    let changed = self.deliver(mi, Event::PaddingSent, ch);
                    if !changed && self.m[mi].state != STATE_END {
                        self.completion(mi, ch);
                    }
                }
            }
            Ev::BlockingBegin(who) => {
                if !self.blocking_active {
                    self.blocking_active = true;
                    self.blocking_started = self.now;
                }
                for mi in 0..n {
                    let changed = self.deliver(mi, Event::BlockingBegin, ch);
                    if !changed && self.m[mi].state != STATE_END && mi == who {
                        self.completion(mi, ch);
                    }
                }
            }
            Ev::BlockingEnd => {
                let mut blocked = 0u64;
                if self.blocking_active {
                    blocked = self.now.saturating_sub(self.blocking_started);
                    self.blocked_us = sat_add(self.blocked_us, blocked);
                    self.blocking_active = false;
                }
                for mi in 0..n {
                    if blocked != 0 {
                        self.m[mi].blocked_us = sat_add(self.m[mi].blocked_us, blocked);
                    }
                    self.deliver(mi, Event::BlockingEnd, ch);
                }
            }
            Ev::TimerBegin(mi) => {
                if mi < n {
                    let changed = self.deliver(mi, Event::TimerBegin, ch);
                    if !changed && self.m[mi].state != STATE_END {
                        self.completion(mi, ch);
                    }
                }
            }
            Ev::TimerEnd(mi) => {
                if mi < n {
                    self.deliver(mi, Event::TimerEnd, ch);
                }
            }
        }
    }

    /// A completion of one of the machine's own actions was reported and the
    /// machine did not change state.
    fn completion(&mut self, mi: usize, ch: &mut dyn Chooser) {
        if self.m[mi].limit > 0 {
            self.m[mi].limit -= 1;
        }
        let st = self.m[mi].state;
        if let Some(a) = self.specs[mi].states[st].action {
            if self.m[mi].limit == 0 && a.limit().is_some() {
                self.actions[mi] = None;
                self.internal_events += 1;
                self.deliver(mi, Event::LimitReached, ch);
            }
        }
    }

    fn raise_signal(&mut self, mi: usize) {
        self.pending = match self.pending {
            Pending::None => Pending::Lone(mi),
            Pending::Lone(x) if x == mi => Pending::Lone(mi),
            _ => Pending::Many,
        };
    }

    /// Deliver an event to a machine. Returns whether the machine changed state.
    fn deliver(&mut self, mi: usize, ev: Event, ch: &mut dyn Chooser) -> bool {
        let prev = self.m[mi].state;
        if prev == STATE_END {
            return false;
        }
        let Some(list) = self.specs[mi].states[prev].trans_for(ev).cloned() else {
            return false;
        };
        // the draw
        let mut cum = Vec::with_capacity(list.len());
        let mut sum = 0.0f32;
        for (_, p) in &list {
            sum += p.0;
            cum.push(sum);
        }
        let w = ch.transition_word(&cum, &mut self.rng);
        self.drawn.push(w);
        let r = draw_f32((w >> 32) as u32);
        let Some(j) = cum.iter().position(|c| r < *c) else {
            self.non_first_outcomes += 1;
            return false;
        };
        if j > 0 {
            self.non_first_outcomes += 1;
        }
        let target = list[j].0;
        if target == STATE_END {
            self.m[mi].state = STATE_END;
            return true;
        }
        if target == STATE_SIGNAL {
            self.raise_signal(mi);
            return false;
        }
        if target != prev {
            self.m[mi].state = target;
            self.m[mi].limit = match self.specs[mi].states[target].action {
                Some(a) => {
                    let mut rr = Rec { rng: &mut self.rng, log: &mut self.drawn };
                    sample_limit(&a, &mut rr)
                }
                None => u64::MAX,
            };
        }
        let below = self.below_limits(mi);
        let (allow, nested_changed) = self.update_counters(mi, ch);
        if allow && below {
            self.schedule(mi, target);
        }
        self.m[mi].state != prev || nested_changed
    }

    fn update_counters(&mut self, mi: usize, ch: &mut dyn Chooser) -> (bool, bool) {
        let st = self.m[mi].state;
        let spec = self.specs[mi].states[st].clone();
        let (old_a, old_b) = (self.m[mi].ca, self.m[mi].cb);
        let mut zeroed = false;
        if let Some(c) = spec.counter_a {
            let v = if c.copy { old_b } else { self.counter_value(&c) };
            let new = apply_op(c.op, old_a, v);
            self.m[mi].ca = new;
            if old_a != 0 && new == 0 && !self.zeroed[mi].0 {
                zeroed = true;
                self.zeroed[mi].0 = true;
            }
        }
        if let Some(c) = spec.counter_b {
            let v = if c.copy { old_a } else { self.counter_value(&c) };
            let new = apply_op(c.op, old_b, v);
            self.m[mi].cb = new;
            if old_b != 0 && new == 0 && !self.zeroed[mi].1 {
                zeroed = true;
                self.zeroed[mi].1 = true;
            }
        }
        if zeroed {
            self.internal_events += 1;
            let changed = self.deliver(mi, Event::CounterZero, ch);
            return (self.actions[mi].is_none(), changed);
        }
        (true, false)
    }

    fn counter_value(&mut self, c: &CounterSpec) -> u64 {
        match c.dist {
            None => 1,
            Some(d) => {
                let mut rr = Rec { rng: &mut self.rng, log: &mut self.drawn };
                ref_sample(&d, &mut rr) as u64
            }
        }
    }

    fn schedule(&mut self, mi: usize, state: usize) {
        let a = self.specs[mi].states[state].action;
        let mut rr = Rec { rng: &mut self.rng, log: &mut self.drawn };
        self.actions[mi] = match a {
            None => None,
            Some(ActionSpec::Cancel { timer }) => Some(Act::Cancel { m: mi, timer }),
            Some(ActionSpec::Pad { bypass, replace, timeout, .. }) => Some(Act::Pad {
                m: mi,
                timeout: sample_clamped(&timeout, &mut rr),
                bypass,
                replace,
            }),
            Some(ActionSpec::Block { bypass, replace, timeout, duration, .. }) => {
                let t = sample_clamped(&timeout, &mut rr);
                let d = sample_clamped(&duration, &mut rr);
                Some(Act::Block { m: mi, timeout: t, duration: d, bypass, replace })
            }
            Some(ActionSpec::Timer { replace, duration, .. }) => Some(Act::Timer {
                m: mi,
                duration: sample_clamped(&duration, &mut rr),
                replace,
            }),
        };
    }

    fn below_limits(&self, mi: usize) -> bool {
        let ms = &self.m[mi];
        let spec = &self.specs[mi];
        match spec.states[ms.state].action {
            None => false,
            Some(ActionSpec::Cancel { .. }) => true,
            Some(ActionSpec::Timer { .. }) => ms.limit > 0,
            Some(ActionSpec::Pad { .. }) => {
                if ms.padding_sent < spec.allowed_padding_packets {
                    return ms.limit > 0;
                }
                if spec.max_padding_frac.0 > 0.0 {
                    let total = ms.normal_sent + ms.padding_sent;
                    if total > 0 && ms.padding_sent as f64 / total as f64 >= spec.max_padding_frac.0 {
                        return false;
                    }
                }
                if self.gfrac_padding > 0.0 {
                    let total = self.normal + self.padding;
                    if total > 0 && self.padding as f64 / total as f64 >= self.gfrac_padding {
                        return false;
                    }
                }
                ms.limit > 0
            }
            Some(ActionSpec::Block { replace, .. }) => {
                if replace && self.blocking_active {
                    return ms.limit > 0;
                }
                let ongoing = if self.blocking_active { self.now.saturating_sub(self.blocking_started) } else { 0 };
                let m_dur = sat_add(ms.blocked_us, ongoing);
                let g_dur = sat_add(self.blocked_us, ongoing);
                if m_dur < spec.allowed_blocked_microsec {
                    return ms.limit > 0;
                }
                let elapsed = self.now.saturating_sub(self.start);
                if spec.max_blocking_frac.0 > 0.0 {
                    let f = m_dur as f64 / elapsed as f64;
                    if f >= spec.max_blocking_frac.0 {
                        return false;
                    }
                }
                if self.gfrac_blocking > 0.0 {
                    let f = g_dur as f64 / elapsed as f64;
                    if f >= self.gfrac_blocking {
                        return false;
                    }
                }
                ms.limit > 0
            }
        }
    }
}

fn apply_op(op: u8, old: u64, v: u64) -> u64 {
    match op {
        0 => old.saturating_add(v),
        1 => old.saturating_sub(v),
        _ => v,
    }
}

/// A sample as documented: the family's draw plus `start`, at least 0, at most `max` when set.
/// Uniform (the family of nearly every hand-written machine) is drawn here, independently of
/// dist.rs, with the same library primitive; the other families go through the crate's sampler
/// (what they return is C13's business).
pub fn ref_sample<R: RngCore>(d: &DistSpec, rng: &mut R) -> f64 {
    use rand::Rng;
    let raw = match d.kind {
        DistKind::Uniform { low, high } => {
            if low.0 == high.0 {
                low.0
            } else {
                rng.gen_range(low.0..high.0)
            }
        }
        _ => return d.to_dist().sample(rng),
    };
    let mut r: f64 = 0.0;
    r = r.max(raw + d.start.0);
    if d.max.0 > 0.0 {
        r = r.min(d.max.0);
    }
    r
}

fn sample_limit(a: &ActionSpec, r: &mut dyn RngCore) -> u64 {
    match a.limit() {
        None => u64::MAX,
        Some(d) => {
            let mut r = r;
            ref_sample(&d, &mut r).round() as u64
        }
    }
}

fn sample_clamped(d: &DistSpec, r: &mut dyn RngCore) -> u64 {
    let mut r = r;
    ref_sample(d, &mut r).min(DAY_US).round() as u64
}
