//! Driving the real simulator with generated traces, machines and arguments,
//! and turning its output into plain records (times in integer nanoseconds
//! relative to an anchor).

use std::time::{Duration, Instant};

use maybenot::Machine;
use maybenot_simulator::network::Network;
use maybenot_simulator::queue::SimQueue;
use maybenot_simulator::verif::{take_fire_log, Fire, FireKind};
use maybenot_simulator::{parse_trace, sim, sim_advanced, SimEvent, SimulatorArgs};
use proptest::prelude::*;
use proptest::sample::select;
use serde::{Deserialize, Serialize};

use crate::gen::*;
use crate::spec::*;

#[derive(Clone, Debug, Serialize, Deserialize, PartialEq)]
pub struct SimCase {
    /// (nanoseconds since the start of the trace, client sent?)
    pub trace: Vec<(u64, bool)>,
    pub delay_ns: u64,
    pub pps: Option<usize>,
    pub client: Vec<MachineSpec>,
    pub server: Vec<MachineSpec>,
    /// padding/blocking fractions: client, server
    pub fracs: [Fx; 4],
    pub seed: u64,
    pub max_trace_length: usize,
    pub max_sim_iterations: usize,
    pub continue_after: bool,
    pub only_client: bool,
    pub only_network: bool,
    /// build the queue by hand (SimQueue::push) instead of parse_trace
    pub hand_queue: bool,
    /// lines of padding packets ("sp"/"rp") in the input text, which parse_trace ignores
    #[serde(default)]
    pub pad_lines: Vec<(u64, bool)>,
    /// how the lines are written: 0 "t,s", 1 "t,sn", 2 "t,s,1500" (a size column)
    #[serde(default)]
    pub line_style: u8,
    /// when > 0 the trace is this many back-to-back copies of `trace` (very long inputs without
    /// very long case files)
    #[serde(default)]
    pub repeat: u32,
    /// added to every timestamp of the input (large absolute timestamps)
    #[serde(default)]
    pub base_ns: u64,
}

/// the packets of the input: `trace`, or `repeat` copies of it one millisecond apart
pub fn effective_trace(c: &SimCase) -> Vec<(u64, bool)> {
    let base = c.base_ns;
    if c.repeat <= 1 {
        return c.trace.iter().map(|(t, s)| (t + base, *s)).collect();
    }
    let period = c.trace.last().map(|x| x.0).unwrap_or(0) + 1_000_000;
    let mut out = Vec::with_capacity(c.trace.len() * c.repeat as usize);
    for r in 0..c.repeat as u64 {
        for (t, s) in &c.trace {
            out.push((t + r * period + base, *s));
        }
    }
    out
}

#[derive(Clone, Debug, PartialEq, Eq, Hash)]
pub struct Rec {
    /// nanoseconds relative to the anchor (may be negative for the server side)
    pub t: i128,
    pub client: bool,
    pub ev: Ev,
    pub padding: bool,
    pub bypass: bool,
    pub replace: bool,
}

#[derive(Clone, Debug)]
pub struct FireRec {
    pub pos: usize,
    pub client: bool,
    pub machine: usize,
    pub kind: FireKind,
    pub due: i128,
}

pub struct SimOut {
    pub events: Vec<SimEvent>,
    pub fires: Vec<Fire>,
}

pub fn trace_text(trace: &[(u64, bool)]) -> String {
    let mut s = String::new();
    for (t, sent) in trace {
        s.push_str(&format!("{},{}\n", t, if *sent { "s" } else { "r" }));
    }
    s
}

/// The input text of a case: the packets of `trace`, in the chosen line style, with the ignored
/// padding lines merged in by time.
pub fn case_text(c: &SimCase) -> String {
    let mut lines: Vec<(u64, String)> = vec![];
    for (t, sent) in &effective_trace(c) {
        let d = match (c.line_style % 3, *sent) {
            (1, true) => "sn",
            (1, false) => "rn",
            (_, true) => "s",
            (_, false) => "r",
        };
        let size = if c.line_style % 3 == 2 { ",1500" } else { "" };
        lines.push((*t, format!("{t},{d}{size}\n")));
    }
    for (t, sent) in &c.pad_lines {
        let t = &(*t + c.base_ns);
        lines.push((*t, format!("{t},{}\n", if *sent { "sp" } else { "rp" })));
    }
    lines.sort_by_key(|l| l.0);
    // line_style / 3 != 0: the lines in a scrambled order (the parser accepts any order)
    let key = (c.line_style / 3) as u64;
    if key != 0 && c.repeat <= 1 {
        let mut x = key.wrapping_mul(0x9E37_79B9_7F4A_7C15) ^ c.seed | 1;
        for i in (1..lines.len()).rev() {
            x ^= x << 13;
            x ^= x >> 7;
            x ^= x << 17;
            lines.swap(i, (x % (i as u64 + 1)) as usize);
        }
    }
    lines.into_iter().map(|l| l.1).collect()
}

pub fn network(c: &SimCase) -> Network {
    Network::new(Duration::from_nanos(c.delay_ns), c.pps)
}

/// Build the input queue; returns the queue and the instant that corresponds
/// to trace time 0 when known exactly (hand-built queues).
pub fn build_queue(c: &SimCase) -> (SimQueue, Option<Instant>) {
    if c.hand_queue {
        // anchor far enough from "now" that subtracting the delay cannot underflow
        let anchor = Instant::now() + Duration::from_secs(3600);
        let mut sq = SimQueue::new();
        for (t, sent) in &effective_trace(c) {
            let ts = anchor + Duration::from_nanos(*t);
            if *sent {
                sq.push(maybenot::TriggerEvent::NormalSent, true, false, ts, Duration::ZERO);
            } else {
                sq.push(
                    maybenot::TriggerEvent::NormalSent,
                    false,
                    false,
                    ts - Duration::from_nanos(c.delay_ns),
                    Duration::ZERO,
                );
            }
        }
        (sq, Some(anchor))
    } else {
        (parse_trace(&case_text(c), network(c)), None)
    }
}

pub fn args(c: &SimCase) -> SimulatorArgs {
    let mut a = SimulatorArgs::new(network(c), c.max_trace_length, c.only_network);
    a.max_sim_iterations = c.max_sim_iterations;
    a.continue_after_all_normal_packets_processed = c.continue_after;
    a.only_client_events = c.only_client;
    a.max_padding_frac_client = c.fracs[0].0;
    a.max_blocking_frac_client = c.fracs[1].0;
    a.max_padding_frac_server = c.fracs[2].0;
    a.max_blocking_frac_server = c.fracs[3].0;
    a.insecure_rng_seed = Some(c.seed);
    a
}

pub fn machines_of(specs: &[MachineSpec]) -> Vec<Machine> {
    specs
        .iter()
        .map(|s| s.build().unwrap_or_else(|e| panic!("generator produced an invalid machine: {e}")))
        .collect()
}

pub fn run_advanced(c: &SimCase, sq: &mut SimQueue, client: &[Machine], server: &[Machine]) -> SimOut {
    let a = args(c);
    let events = sim_advanced(client, server, sq, &a);
    SimOut { events, fires: take_fire_log() }
}

pub fn run_simple(c: &SimCase, sq: &mut SimQueue, client: &[Machine], server: &[Machine]) -> Vec<SimEvent> {
    let r = sim(client, server, sq, Duration::from_nanos(c.delay_ns), c.max_trace_length, c.only_network);
    let _ = take_fire_log();
    r
}

pub fn rel(t: Instant, anchor: Instant) -> i128 {
    if t >= anchor {
        t.duration_since(anchor).as_nanos() as i128
    } else {
        -(anchor.duration_since(t).as_nanos() as i128)
    }
}

pub fn recs(events: &[SimEvent], anchor: Instant) -> Vec<Rec> {
    events
        .iter()
        .map(|e| {
            let (bypass, replace) = e.verif_flags();
            Rec {
                t: rel(e.time, anchor),
                client: e.client,
                ev: Ev::from_trigger(&e.event),
                padding: e.contains_padding,
                bypass,
                replace,
            }
        })
        .collect()
}

pub fn fire_recs(fires: &[Fire], anchor: Instant) -> Vec<FireRec> {
    fires
        .iter()
        .map(|f| FireRec {
            pos: f.events_processed,
            client: f.client,
            machine: f.machine,
            kind: f.kind,
            due: rel(f.due, anchor),
        })
        .collect()
}

// ---------------------------------------------------------------------------
// generators

/// gaps between trace lines, in nanoseconds
fn gap() -> BoxedStrategy<u64> {
    prop_oneof![
        4 => Just(0u64),
        1 => Just(1u64),
        3 => 1u64..100_000,
        5 => 100_000u64..20_000_000,
        1 => select(vec![99_999_999u64, 100_000_000, 100_000_001]),
        2 => 20_000_000u64..400_000_000,
        1 => 400_000_000u64..3_000_000_000,
    ]
    .boxed()
}

pub fn trace(max_len: usize) -> BoxedStrategy<Vec<(u64, bool)>> {
    let mixed = (
        proptest::collection::vec((gap(), any::<bool>()), 1..=max_len),
        prop_oneof![6 => Just(0u8), 1 => Just(1u8), 1 => Just(2u8)],
    )
        .prop_map(|(v, dir)| {
            let mut t = 0u64;
            let mut out = vec![];
            for (i, (g, s)) in v.into_iter().enumerate() {
                if i > 0 {
                    t += g;
                }
                let sent = match dir {
                    1 => true,
                    2 => false,
                    _ => s,
                };
                out.push((t, sent));
            }
            out
        });
    // evenly paced traffic sustained over seconds (what a bottleneck model reacts to)
    let paced = (
        20_000_000u64..250_000_000,
        0u64..20_000_000,
        proptest::collection::vec((any::<bool>(), 0u64..1000), 8..=max_len.max(8)),
        0u8..3,
    )
        .prop_map(|(base, jitter, v, style)| {
            let mut t = 0u64;
            let mut out = vec![];
            for (i, (s, j)) in v.into_iter().enumerate() {
                let sent = match style {
                    0 => i % 2 == 0,
                    1 => s,
                    _ => i % 3 != 0,
                };
                out.push((t, sent));
                // alternate directions at (nearly) the same instant, then wait
                if style == 0 && i % 2 == 0 {
                    t += j;
                } else {
                    t += base + (j * jitter) / 1000;
                }
            }
            out
        });
    prop_oneof![4 => mixed, 1 => paced].boxed()
}

/// same-direction packets (or bursts of equal timestamps) repeated at a fixed step that sits on, or one
/// nanosecond beside, the edges of the 100 ms and 1 s rate windows, sustained for well over a second and
/// without jitter (what two window counters with different edge conventions disagree about)
pub fn edge_trace(max_len: usize) -> BoxedStrategy<Vec<(u64, bool)>> {
    (
        select(vec![
            100_000_000u64, 100_000_000, 100_000_000, 99_999_999, 100_000_001, 50_000_000, 200_000_000, 1_000_000_000, 999_999_999,
            1_000_000_001, 33_333_333, 25_000_000, 10_000_000,
        ]),
        1usize..=4,
        12usize..=30,
        0u8..4,
        proptest::collection::vec(any::<bool>(), 4),
    )
        .prop_map(move |(step, burst, steps, style, dirs)| {
            let mut out = vec![];
            for k in 0..steps {
                for b in 0..burst {
                    let sent = match style {
                        0 => true,
                        1 => false,
                        2 => (k + b) % 2 == 0,
                        _ => dirs[b % 4],
                    };
                    out.push((k as u64 * step, sent));
                }
            }
            out.truncate(max_len.max(12));
            out
        })
        .boxed()
}

/// traces whose timestamps are multiples of one millisecond (coincidences with grid machines)
pub fn grid_trace(max_len: usize) -> BoxedStrategy<Vec<(u64, bool)>> {
    proptest::collection::vec((select(vec![0u64, 0, 1, 1, 2, 3, 5, 10]), any::<bool>()), 1..=max_len)
        .prop_map(|v| {
            let mut t = 0u64;
            let mut out = vec![];
            for (i, (g, s)) in v.into_iter().enumerate() {
                if i > 0 {
                    t += g * 1_000_000;
                }
                out.push((t, s));
            }
            out
        })
        .boxed()
}

/// seeds, with the corners of the u64 range
pub fn seed() -> BoxedStrategy<u64> {
    prop_oneof![
        8 => any::<u64>(),
        1 => select(vec![0u64, 1, u64::MAX, u64::MAX - 1, 1u64 << 63]),
    ]
    .boxed()
}

/// ignored padding lines and the line style of the input text
pub fn text_extras() -> BoxedStrategy<(Vec<(u64, bool)>, u8)> {
    (
        prop_oneof![
            3 => Just(vec![]),
            1 => proptest::collection::vec((0u64..3_000_000_000, any::<bool>()), 1..=6),
        ],
        // style (mod 3) and line order (div 3: 0 sorted, otherwise scrambled)
        prop_oneof![3 => 0u8..3, 1 => 3u8..12],
    )
        .boxed()
}

pub fn delay() -> BoxedStrategy<u64> {
    prop_oneof![
        2 => Just(0u64),
        1 => Just(1u64),
        2 => 1_000u64..1_000_000,
        4 => 1_000_000u64..50_000_000,
        1 => select(vec![100_000_000u64, 1_000_000_000]),
    ]
    .boxed()
}

/// machine sets for the simulator: light distributions, arbitrary structure
pub fn sim_machines(max: usize, mp: &MachineParams) -> BoxedStrategy<Vec<MachineSpec>> {
    proptest::collection::vec(machine(mp), 0..=max).boxed()
}

pub fn sim_machine_params(zero: bool) -> MachineParams {
    let mut mp = MachineParams {
        max_states: 4,
        dist: DistProfile::Light,
        light_zero: zero,
        p_action: 0.85,
        kind_weights: [2, 4, 4, 3],
        p_limit: 0.3,
        p_counter: 0.2,
        w_end: 1,
        w_signal: 1,
        ..MachineParams::default()
    };
    // the events a simulation produces
    mp.p_trans = [0.35; 13];
    mp.p_trans[3] = 0.5; // NormalSent
    mp.p_trans[0] = 0.4; // NormalRecv
    mp.p_trans[4] = 0.5; // PaddingSent
    mp.p_trans[6] = 0.5; // BlockingBegin
    mp.p_trans[7] = 0.5; // BlockingEnd
    mp.p_trans[10] = 0.5; // TimerBegin
    mp.p_trans[11] = 0.5; // TimerEnd
    mp
}

pub fn sim_fracs() -> BoxedStrategy<[Fx; 4]> {
    let f = || prop_oneof![3 => Just(0.0), 1 => select(vec![0.25, 0.5, 1.0]), 1 => (0.0f64..=1.0).boxed()];
    (f(), f(), f(), f())
        .prop_map(|(a, b, c, d)| [Fx(a), Fx(b), Fx(c), Fx(d)])
        .boxed()
}
