//! Exact comparisons between integer ratios and f64 limits (no tolerance).

/// Decompose a positive finite f64 into (mantissa, exponent) with
/// `f == mantissa * 2^exponent`.
fn decompose(f: f64) -> (u64, i32) {
    let bits = f.to_bits();
    let exp = ((bits >> 52) & 0x7ff) as i32;
    let frac = bits & ((1u64 << 52) - 1);
    if exp == 0 {
        (frac, -1074)
    } else {
        (frac | (1u64 << 52), exp - 1075)
    }
}

/// Exact test `p / t < f` for integers p, t (t > 0) and a finite f64 f > 0.
pub fn ratio_below(p: u128, t: u128, f: f64) -> bool {
    assert!(t > 0 && f > 0.0 && f.is_finite());
    assert!(p < (1u128 << 70) && t < (1u128 << 70));
    if p == 0 {
        return true;
    }
    let (m, e) = decompose(f);
    // p / t < m * 2^e  <=>  p * 2^-e < m * t   (e < 0 for f <= 1; handle e >= 0 too)
    let rhs = (m as u128) * t; // < 2^53 * 2^70
    if e >= 0 {
        // f >= 2^52: certainly above any ratio we meet unless p is astronomically larger
        let sh = e as u32;
        if sh >= 128 || rhs.leading_zeros() < sh {
            return true;
        }
        return p < (rhs << sh);
    }
    let sh = (-e) as u32;
    if sh >= 128 || p.leading_zeros() < sh {
        // p * 2^sh >= 2^128 > rhs
        return false;
    }
    (p << sh) < rhs
}

#[cfg(test)]
mod tests {
    use super::*;
    #[test]
    fn basics() {
        assert!(ratio_below(1, 3, 0.5));
        assert!(!ratio_below(1, 2, 0.5));
        assert!(!ratio_below(2, 3, 0.5));
        assert!(ratio_below(0, 1, f64::from_bits(1)));
        assert!(!ratio_below(1, u64::MAX as u128, f64::from_bits(1)));
        assert!(!ratio_below(1, 1, 1.0));
        assert!(ratio_below(1, 2, 1.0));
        // 1/3 vs the f64 nearest to 1/3 (which is below 1/3)
        assert!(!ratio_below(1, 3, 1.0 / 3.0));
        assert!(ratio_below(1, 3, f64::from_bits((1.0f64 / 3.0).to_bits() + 1)));
    }
}
