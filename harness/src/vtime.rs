//! A virtual clock implementing `maybenot::time::{Instant, Duration}`:
//! instants and durations are whole microseconds in a u64, so every time value
//! the framework sees is a generated, replayable number.

use std::ops::AddAssign;

#[derive(Clone, Copy, Debug, PartialEq, Eq, PartialOrd, Ord, Hash)]
pub struct VInstant(pub u64);

#[derive(Clone, Copy, Debug, PartialEq, Eq, PartialOrd, Ord, Hash)]
pub struct VDur(pub u64);

impl AddAssign for VDur {
    fn add_assign(&mut self, rhs: Self) {
        // overflow behaviour of a caller-supplied duration type is the
        // caller's choice, not the framework's: saturate
        self.0 = self.0.saturating_add(rhs.0);
    }
}

impl maybenot::time::Duration for VDur {
    fn zero() -> Self {
        VDur(0)
    }
    fn from_micros(micros: u64) -> Self {
        VDur(micros)
    }
    fn is_zero(&self) -> bool {
        self.0 == 0
    }
    fn div_duration_f64(self, rhs: Self) -> f64 {
        self.0 as f64 / rhs.0 as f64
    }
}

impl maybenot::time::Instant for VInstant {
    type Duration = VDur;
    fn saturating_duration_since(&self, earlier: Self) -> VDur {
        VDur(self.0.saturating_sub(earlier.0))
    }
}
