//! A virtual clock implementing `maybenot::time::{Instant, Duration}`:
//! instants and durations are whole microseconds in a u64, so every time value
//! the framework sees is a generated, replayable number.

use std::ops::AddAssign;

#[derive(Clone, Copy, Debug, PartialEq, Eq, PartialOrd, Ord, Hash)]
pub struct VInstant(pub u64);

#[derive(Clone, Copy, Debug, PartialEq, Eq, PartialOrd, Ord, Hash)]
pub struct VDur(pub u64);

impl AddAssign for VDur {
    fn add_assign(&mut self, rhs: Self) {
        // overflow behaviour of a caller-supplied duration type is the
        // caller's choice, not the framework's: saturate
        self.0 = self.0.saturating_add(rhs.0);
    }
}

impl maybenot::time::Duration for VDur {
    fn zero() -> Self {
        VDur(0)
    }
    fn from_micros(micros: u64) -> Self {
        VDur(micros)
    }
    fn is_zero(&self) -> bool {
        self.0 == 0
    }
    fn div_duration_f64(self, rhs: Self) -> f64 {
        self.0 as f64 / rhs.0 as f64
    }
}

impl maybenot::time::Instant for VInstant {
    type Duration = VDur;
    fn saturating_duration_since(&self, earlier: Self) -> VDur {
        VDur(self.0.saturating_sub(earlier.0))
    }
}

/// A second virtual clock, in whole **nanoseconds**, whose duration type is `std::time::Duration`:
/// it exercises the crate's own `Duration` implementation (the one every integrator using
/// `std::time::Instant` gets) with generated, replayable time values.
#[derive(Clone, Copy, Debug, PartialEq, Eq, PartialOrd, Ord, Hash)]
pub struct NInstant(pub u64);

impl maybenot::time::Instant for NInstant {
    type Duration = std::time::Duration;
    fn saturating_duration_since(&self, earlier: Self) -> std::time::Duration {
        std::time::Duration::from_nanos(self.0.saturating_sub(earlier.0))
    }
}
