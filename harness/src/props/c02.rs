//! C02 — padding budgets: an independent recount of NormalSent/PaddingSent
//! reports decides whether each returned SendPadding was allowed.

use maybenot::verif::VerifStep;
use proptest::prelude::*;

use crate::exact::ratio_below;
use crate::fw::*;
use crate::gen::*;
use crate::rt::*;
use crate::spec::*;

pub struct C02;

fn frac_set(f: f64) -> bool {
    f > 0.0
}

/// "fraction over zero packets counts as below"
fn below(p: u64, total: u64, f: f64) -> bool {
    if total == 0 {
        return true;
    }
    ratio_below(p as u128, total as u128, f)
}

impl Prop for C02 {
    type Case = FwCase;
    const ID: &'static str = "C02";
    const RULE: &'static str = "case = 1..=4 machines whose states mostly carry SendPadding (constant or light dists; allowed_padding_packets from {0,1,small,huge}; machine fractions from {0, dyadic, random, subnormal}) x framework padding fraction in [0,1] x history of <=200 single-event calls interleaving NormalSent, PaddingSent{known and unknown ids} and all other events x scripted/seeded stream. Oracle recounts reports from the fed events only and compares fractions exactly (integer cross-multiplication). Non-trivial: a call in which a machine that has exhausted its packet budget and has a machine or framework fraction limit set entered a padding state (returned or withheld, seen through the step log). Distinct = hash of the case.";

    fn profiles(tier: Tier) -> Vec<Profile> {
        match tier {
            Tier::Quick => vec![prof("pad", 120_000), prof("pad_light", 30_000), prof("zero_budget", 60_000), prof("capi", 8_000)],
            Tier::Thorough => vec![prof("pad", 1_500_000), prof("pad_light", 300_000), prof("zero_budget", 700_000), prof("capi", 100_000)],
        }
    }

    fn strategy(profile: &str) -> BoxedStrategy<FwCase> {
        if profile == "capi" {
            // padding budgets for C callers: the same single-event histories through the C API
            let hp = HistParams { min_calls: 5, max_calls: 80, single: true, ev_weights: [1, 1, 1, 6, 8, 1, 1, 1, 1, 1], w_unknown_id: 3, ..HistParams::default() };
            return crate::props::capi_case(1..=4, |mp| { mp.p_action = 0.9; mp.kind_weights = [1, 10, 1, 1]; mp.budgets = crate::gen::BudgetProfile::Any; }, &hp)
                .prop_map(|mut c| { if c.max_padding_frac.0 == 0.0 { c.max_padding_frac = Fx(0.5); } c })
                .boxed();
        }
        let mut mp = MachineParams {
            max_states: 4,
            p_action: 0.9,
            kind_weights: [1, 10, 1, 1],
            p_limit: 0.15,
            p_counter: 0.15,
            w_end: 1,
            w_signal: 1,
            ..MachineParams::default()
        };
        mp.p_trans = [0.5; 13];
        let hp = HistParams {
            min_calls: 5,
            max_calls: 200,
            single: true,
            ev_weights: [1, 1, 1, 8, 8, 1, 1, 1, 1, 1],
            w_unknown_id: 3,
            clock: ClockProfile::Monotone,
            ..HistParams::default()
        };
        let mut w = 16;
        match profile {
            "pad" => {}
            "pad_light" => {
                mp.dist = DistProfile::Light;
                w = 0;
            }
            "zero_budget" => {
                // machines with no packet budget: every padding is decided by fractions
                return fw_case(1..=4, &mp, &hp, true, w)
                    .prop_map(|mut c| {
                        for (i, m) in c.machines.iter_mut().enumerate() {
                            if i % 2 == 0 || m.allowed_padding_packets > 3 {
                                m.allowed_padding_packets = 0;
                            }
                        }
                        c
                    })
                    .boxed();
            }
            _ => panic!("unknown profile"),
        }
        fw_case(1..=4, &mp, &hp, true, w)
    }

    fn check(case: &FwCase, obs: &mut Obs) -> Result<(), Failure> {
        let machines = build_machines(&case.machines)
            .unwrap_or_else(|e| panic!("generator produced a machine that Machine::new rejects: {e}"));
        let n = machines.len();
        if case.seed == crate::props::CAPI_MARK {
            crate::props::capi_pass(case, obs)?;
        }
        let mut run = FwRun::new(case, machines, Some(50_000_000))
            .map_err(|e| Failure { signature: "framework-new-rejects-validated-machines".into(), detail: e })?;
        let gfrac = case.max_padding_frac.0;
        let mut normal: u64 = 0;
        let mut pad_m = vec![0u64; n];
        let mut pad_all: u64 = 0;
        let mut nt = false;
        for (ci, c) in case.calls.iter().enumerate() {
            assert!(c.events.len() == 1, "C02 is stated for single-event calls");
            match c.events[0] {
                Ev::NormalSent => normal += 1,
                Ev::PaddingSent(m) => {
                    pad_all += 1;
                    if m < n {
                        pad_m[m] += 1;
                        if run.fw.verif_snapshot().machines[m].current_state == maybenot::constants::STATE_END {
                            obs.hit("padding_sent_for_ended_machine");
                        }
                    } else {
                        obs.hit("padding_sent_for_unknown_machine");
                    }
                }
                _ => {}
            }
            let rec = run.call(c);
            // generator measurement: which machines entered a padding state while out of budget
            for s in &rec.steps {
                if let VerifStep::Target { machine, target: Some(t) } = s {
                    let m = *machine;
                    if *t < case.machines[m].states.len() {
                        if let Some(ActionSpec::Pad { .. }) = case.machines[m].states[*t].action {
                            let spec = &case.machines[m];
                            if pad_m[m] >= spec.allowed_padding_packets
                                && (frac_set(spec.max_padding_frac.0) || frac_set(gfrac))
                            {
                                nt = true;
                                if rec.actions.iter().any(|a| matches!(a, Act::Pad { m: x, .. } if *x == m)) {
                                    obs.hit("over_budget_entry_returned");
                                } else {
                                    obs.hit("over_budget_entry_withheld");
                                }
                                if pad_m[m] == 0 && pad_all > 0 {
                                    obs.hit("others_padding_counts_while_own_zero");
                                }
                                if normal + pad_m[m] == 0 {
                                    obs.hit("zero_own_packets");
                                }
                            }
                        }
                    }
                }
            }
            for a in &rec.actions {
                let Act::Pad { m, .. } = *a else { continue };
                obs.hit("padding_returned");
                let spec = &case.machines[m];
                if pad_m[m] < spec.allowed_padding_packets {
                    obs.hit("within_packet_budget");
                    continue;
                }
                let mfrac = spec.max_padding_frac.0;
                let m_ok = !frac_set(mfrac) || below(pad_m[m], normal + pad_m[m], mfrac);
                let g_ok = !frac_set(gfrac) || below(pad_all, normal + pad_all, gfrac);
                if frac_set(mfrac) || frac_set(gfrac) {
                    obs.hit("decided_by_fraction");
                }
                if !m_ok {
                    return fail(
                        "padding-over-machine-fraction",
                        format!(
                            "call {ci} ({:?}): SendPadding for machine {m} with {} own paddings (allowed {}), {} normal: own fraction {}/{} is not below max_padding_frac {}",
                            c.events[0], pad_m[m], spec.allowed_padding_packets, normal, pad_m[m], normal + pad_m[m], mfrac
                        ),
                    );
                }
                if !g_ok {
                    let sig = if normal + pad_m[m] == 0 && frac_set(mfrac) {
                        "padding-over-framework-fraction (machine with zero own packets and a machine fraction set)"
                    } else {
                        "padding-over-framework-fraction"
                    };
                    return fail(
                        sig,
                        format!(
                            "call {ci} ({:?}): SendPadding for machine {m} with {} own paddings (allowed {}): framework-wide fraction {}/{} is not below the framework max_padding_frac {}",
                            c.events[0], pad_m[m], spec.allowed_padding_packets, pad_all, normal + pad_all, gfrac
                        ),
                    );
                }
            }
        }
        if nt {
            obs.nontrivial();
        }
        Ok(())
    }

    fn required_classes() -> Vec<&'static str> {
        vec![
            "over_budget_entry_returned",
            "over_budget_entry_withheld",
            "others_padding_counts_while_own_zero",
            "decided_by_fraction",
            "within_packet_budget",
            "padding_sent_for_ended_machine",
            "padding_sent_for_unknown_machine",
        ]
    }

    fn assumptions() -> Vec<&'static str> {
        vec![
            "a fraction limit is 'set' when it is > 0 (0 and -0.0 mean no limit), as documented for Machine and Framework",
            "multi-event batches are covered by C05's reference model, as the property states",
            "the step log is used only to classify cases (non-triviality), never to judge",
        ]
    }

    fn sample(case: &FwCase) -> serde_json::Value {
        crate::props::fw_sample(case)
    }
}
