//! C13 — sampling a validated distribution returns promptly with a value in range.

use std::io::Read;
use std::process::{Command, Stdio};
use std::time::{Duration, Instant};

use maybenot::counter::{Counter, Operation};
use proptest::prelude::*;
use proptest::sample::select;
use rand::Rng;
use serde::{Deserialize, Serialize};

use crate::fw::*;
use crate::gen::*;
use crate::rng::ScriptRng;
use crate::rt::*;
use crate::spec::*;

pub struct C13;

#[derive(Clone, Debug, Serialize, Deserialize)]
pub struct SampleCase {
    pub dist: DistSpec,
    pub words: Vec<u64>,
    pub seed: u64,
    /// 0: Dist::sample, 1: Counter::sample_value, 2: framework (timeout/duration/limit of a one-state machine),
    /// 3: the validation that decides is Machine::new (the distribution sits in a state without
    ///    outgoing transitions), and what it accepts is run in the framework
    pub via: u8,
    /// run the first sample in a child process under a 2 s limit (demonstration of listed findings)
    pub isolate: bool,
}

pub const SIG_BINV: &str = "no-return: Binomial (inversion branch, n*min(p,1-p) < 10) never returns when its first uniform draw exceeds the rounded sum of all probabilities";
pub const SIG_BTPE: &str = "panic in binomial.rs: assertion failed: x < (core::i64::MAX as f64)";

/// Does rand_distr 0.4.3's BINV loop terminate for this first uniform draw?
/// (Used only to keep the search going behind the listed finding, never as an oracle.)
fn binv_terminates(n: u64, p_in: f64, u0: f64) -> bool {
    let p = if p_in <= 0.5 { p_in } else { 1.0 - p_in };
    let q = 1.0 - p;
    let s = p / q;
    let a = ((n + 1) as f64) * s;
    let mut r = q.powi(n as i32);
    let mut u = u0;
    let mut x = 0u64;
    while u > r {
        u -= r;
        x += 1;
        r *= a / (x as f64) - s;
        if x > 200_000 {
            return false;
        }
    }
    true
}

fn on_binv_path(d: &DistSpec) -> Option<(u64, f64)> {
    if let DistKind::Binomial { trials, probability } = d.kind {
        let p0 = probability.0;
        if p0 == 0.0 || p0 == 1.0 {
            return None;
        }
        let p = if p0 <= 0.5 { p0 } else { 1.0 - p0 };
        if (trials as f64) * p < 10.0 && trials <= i32::MAX as u64 {
            return Some((trials, p0));
        }
    }
    None
}

fn extreme_words(max: usize) -> BoxedStrategy<Vec<u64>> {
    let w = prop_oneof![
        4 => select(vec![0u64, !0u64, 0x5555_5555_5555_5555, 0xAAAA_AAAA_AAAA_AAAA, 1, 1u64 << 63, 1u64 << 11, (1u64 << 11) - 1, 1u64 << 12, !0u64 << 11, !0u64 << 12, 0x7FFF_FFFF_FFFF_FFFF, 0x8000_0000_0000_0001]),
        2 => any::<u64>(),
    ];
    proptest::collection::vec(w, 0..=max).boxed()
}

fn check_value(d: &DistSpec, v: f64, what: &str) -> Result<(), Failure> {
    let fam = d.kind.family();
    if v.is_nan() {
        return fail(format!("sample-is-nan ({fam})"), format!("{what}: {d:?} sampled NaN"));
    }
    if v < 0.0 {
        return fail(format!("sample-negative ({fam})"), format!("{what}: {d:?} sampled {v}"));
    }
    if d.max.0 > 0.0 && v > d.max.0 {
        return fail(format!("sample-above-max ({fam})"), format!("{what}: {d:?} sampled {v} > max {}", d.max.0));
    }
    Ok(())
}

/// Run one sample in a child process; Ok(None) when it does not return within the limit.
fn isolated_sample(c: &SampleCase, limit: Duration) -> Result<Option<Result<f64, String>>, String> {
    let exe = std::env::current_exe().map_err(|e| e.to_string())?;
    let mut child = Command::new(exe)
        .arg("probe")
        .arg("sample")
        .arg(serde_json::to_string(c).map_err(|e| e.to_string())?)
        .stdin(Stdio::null())
        .stdout(Stdio::piped())
        .stderr(Stdio::null())
        .spawn()
        .map_err(|e| e.to_string())?;
    let t0 = Instant::now();
    loop {
        match child.try_wait() {
            Ok(Some(st)) => {
                let mut out = String::new();
                if let Some(mut o) = child.stdout.take() {
                    let _ = o.read_to_string(&mut out);
                }
                return match st.code() {
                    Some(0) => {
                        let bits = u64::from_str_radix(out.trim(), 16).map_err(|e| e.to_string())?;
                        Ok(Some(Ok(f64::from_bits(bits))))
                    }
                    Some(1) => Ok(Some(Err(out.trim().to_string()))),
                    other => Err(format!("probe exited with {other:?}: {out}")),
                };
            }
            Ok(None) => {
                if t0.elapsed() > limit {
                    let _ = child.kill();
                    let _ = child.wait();
                    return Ok(None);
                }
                std::thread::sleep(Duration::from_millis(10));
            }
            Err(e) => return Err(e.to_string()),
        }
    }
}

/// entry point of `mbn-verif probe sample <json>`
pub fn probe_sample(json: &str) -> i32 {
    install_panic_hook();
    let c: SampleCase = match serde_json::from_str(json) {
        Ok(c) => c,
        Err(e) => {
            println!("bad case: {e}");
            return 2;
        }
    };
    let mut rng = ScriptRng::new(&c.words, c.seed);
    match guarded(|| c.dist.to_dist().sample(&mut rng)) {
        Caught::Ok(v) => {
            println!("{:016x}", v.to_bits());
            0
        }
        Caught::Panic(p) => {
            println!("{}", panic_signature(&p));
            1
        }
        _ => {
            println!("harness");
            2
        }
    }
}

/// The distribution inside a machine: state 0 leads (probability 1) to state 1, which has no
/// outgoing transitions and uses the distribution for its counter update, timeout, duration and
/// limit. Whatever `Machine::new` accepts is run; a panic, a hang or an out-of-range timeout is a
/// violation.
fn via_machine(c: &SampleCase, obs: &mut Obs) -> Result<(), Failure> {
    if on_binv_path(&c.dist).is_some() {
        return Ok(());
    }
    let actions = [
        ActionSpec::Pad { bypass: false, replace: false, timeout: c.dist, limit: Some(c.dist) },
        ActionSpec::Block { bypass: false, replace: true, timeout: c.dist, duration: c.dist, limit: None },
        ActionSpec::Timer { replace: false, duration: c.dist, limit: Some(c.dist) },
    ];
    // the candidate in every slot a distribution can occupy, one arrangement per machine (each slot
    // also next to well-formed neighbours, so that a check skipped for one slot is not masked by another)
    let one = DistSpec::constant(1.0);
    let cs = |d: DistSpec| Some(CounterSpec { op: 0, dist: Some(d), copy: false });
    let plain = ActionSpec::Pad { bypass: false, replace: false, timeout: one, limit: None };
    let arrangements: Vec<(ActionSpec, Option<CounterSpec>, Option<CounterSpec>)> = vec![
        // everywhere at once
        (actions[0], cs(c.dist), cs(c.dist)),
        (actions[1], cs(c.dist), None),
        (actions[2], None, cs(c.dist)),
        // exactly one slot holds the candidate, every other slot is well-formed
        (plain, cs(c.dist), None),
        (plain, None, cs(c.dist)),
        (plain, cs(one), cs(c.dist)),
        (plain, cs(c.dist), cs(one)),
        // a copy counter that also carries a distribution (struct literal / decoder only)
        (plain, Some(CounterSpec { op: 2, dist: Some(c.dist), copy: true }), cs(one)),
        (plain, cs(one), Some(CounterSpec { op: 1, dist: Some(c.dist), copy: true })),
        (ActionSpec::Pad { bypass: true, replace: true, timeout: c.dist, limit: None }, None, None),
        (ActionSpec::Pad { bypass: true, replace: true, timeout: one, limit: Some(c.dist) }, None, None),
        (ActionSpec::Block { bypass: false, replace: false, timeout: c.dist, duration: one, limit: None }, None, None),
        (ActionSpec::Block { bypass: true, replace: false, timeout: one, duration: c.dist, limit: None }, None, None),
        (ActionSpec::Block { bypass: true, replace: false, timeout: one, duration: c.dist, limit: Some(one) }, None, None),
        (ActionSpec::Block { bypass: true, replace: false, timeout: one, duration: one, limit: Some(c.dist) }, None, None),
        (ActionSpec::Timer { replace: true, duration: c.dist, limit: None }, None, None),
        (ActionSpec::Timer { replace: true, duration: one, limit: Some(c.dist) }, None, None),
    ];
    let all: Vec<MachineSpec> = arrangements
        .iter()
        .map(|(a, ca, cb)| MachineSpec {
            allowed_padding_packets: u64::MAX,
            max_padding_frac: Fx(0.0),
            allowed_blocked_microsec: u64::MAX,
            max_blocking_frac: Fx(0.0),
            states: vec![
                StateSpec { action: None, counter_a: None, counter_b: None, trans: vec![(0, vec![(1, Fs(1.0))])] },
                StateSpec { action: Some(*a), counter_a: *ca, counter_b: *cb, trans: vec![] },
            ],
        })
        // a state without an action whose counter update carries the candidate
        .chain([(cs(c.dist), None), (None, cs(c.dist)), (cs(one), cs(c.dist))].into_iter().map(|(ca, cb)| MachineSpec {
            allowed_padding_packets: u64::MAX,
            max_padding_frac: Fx(0.0),
            allowed_blocked_microsec: u64::MAX,
            max_blocking_frac: Fx(0.0),
            states: vec![
                StateSpec { action: None, counter_a: None, counter_b: None, trans: vec![(0, vec![(1, Fs(1.0))])] },
                StateSpec { action: None, counter_a: ca, counter_b: cb, trans: vec![] },
            ],
        }))
        .collect();
    // each machine is judged by Machine::new on its own
    let machines: Vec<MachineSpec> = all.into_iter().filter(|m| m.build().is_ok()).collect();
    if machines.is_empty() {
        obs.hit("rejected_by_validation");
        return Ok(());
    }
    let built = build_machines(&machines).unwrap_or_else(|e| panic!("machines accepted one by one are rejected together: {e}"));
    obs.hit("via_machine_validation");
    if c.dist.to_dist().validate().is_err() {
        // Machine::new accepted what Dist::validate rejects: it is run all the same, and C12
        // reports the disagreement itself
        obs.hit("machine_accepts_what_dist_validate_rejects");
    }
    let case = FwCase {
        machines: machines.clone(),
        max_padding_frac: Fx(0.0),
        max_blocking_frac: Fx(0.0),
        start: 0,
        words: c.words.clone(),
        seed: c.seed,
        calls: vec![],
    };
    let budget = c.words.len() as u64 + 100_000;
    let mut run = FwRun::new(&case, built, Some(budget * 4)).map_err(|e| Failure {
        signature: "framework-new-rejects-validated-machines".into(),
        detail: e,
    })?;
    // event index 0 of `trans` is NormalRecv
    let rec = run.call(&Call { clock: Clock::Add(10), events: vec![Ev::NormalRecv] });
    for a in &rec.actions {
        let (t, du) = match *a {
            Act::Pad { timeout, .. } => (timeout, 0),
            Act::Block { timeout, duration, .. } => (timeout, duration),
            Act::Timer { duration, .. } => (0, duration),
            _ => (0, 0),
        };
        if t > 86_400_000_000 || du > 86_400_000_000 {
            return fail("timeout-or-duration-above-24h", format!("{a:?} from {:?}", c.dist));
        }
    }
    if !rec.actions.is_empty() {
        obs.nontrivial();
    }
    Ok(())
}

impl Prop for C13 {
    type Case = SampleCase;
    fn admissible(c: &SampleCase) -> bool {
        !c.isolate && c.words.len() <= 64
    }

    const ID: &'static str = "C13";
    const RULE: &'static str = "case = one distribution accepted by Dist::validate (candidates: all 11 families, parameters from the corner pool admitted by validation and log-uniform ordinary values; start/max from {0, ordinary, negative, huge, infinite, NaN}; plus candidates beyond the performance bounds of validation, which the pinned tree rejects) x random source = prefix of 0..=12 extreme words (all-zero, all-one, alternating, single bits, words adjacent to the f64/f32 conversion edges, random) followed by a seeded Xoshiro256** stream x consumer (Dist::sample x4, Counter::sample_value, or a one-state framework using it as timeout/duration/limit). Non-trivial: non-empty word prefix, or start/max different from 0 (clamping in play). Distinct = hash of the case.";

    fn profiles(tier: Tier) -> Vec<Profile> {
        match tier {
            Tier::Quick => vec![prof("wild", 300_000), prof("fair", 100_000), prof("binomial", 100_000), prof("trigger", 1)],
            Tier::Thorough => vec![prof("wild", 8_000_000), prof("fair", 3_000_000), prof("binomial", 3_000_000), prof("trigger", 1)],
        }
    }

    fn strategy(profile: &str) -> BoxedStrategy<SampleCase> {
        match profile {
            "wild" => (candidate_dist(), extreme_words(12), any::<u64>(), 0u8..4)
                .prop_map(|(dist, words, seed, via)| SampleCase { dist, words, seed, via, isolate: false })
                .boxed(),
            "fair" => (candidate_dist(), any::<u64>(), 0u8..4)
                .prop_map(|(dist, seed, via)| SampleCase { dist, words: vec![], seed, via, isolate: false })
                .boxed(),
            "binomial" => (
                prop_oneof![
                    select(vec![1u64, 2, 9, 10, 11, 100, 1000, 1_000_000, 999_999_999, 1_000_000_000]),
                    0u64..=1_000_000_000
                ],
                prop_oneof![
                    select(vec![0.0, 1.0, 1e-9, 1.0000000000000002e-9, 1e-8, 9.9e-9, 1e-6, 0.01, 0.5, 0.99, 1.0 - 1e-9, 0.999999999, 0.9999999999999999]),
                    0.0f64..1.0
                ],
                extreme_words(8),
                any::<u64>(),
            )
                .prop_map(|(trials, p, words, seed)| SampleCase {
                    dist: DistSpec {
                        kind: DistKind::Binomial { trials, probability: Fx(p) },
                        start: Fx(0.0),
                        max: Fx(0.0),
                    },
                    words,
                    seed,
                    via: 0,
                    isolate: false,
                })
                .boxed(),
            // re-demonstrations of the listed findings against the real code, in child processes
            "trigger" => Just(SampleCase {
                dist: DistSpec::constant(0.0),
                words: vec![],
                seed: 1,
                via: 0,
                isolate: true,
            })
            .boxed(),
            _ => panic!("unknown profile"),
        }
    }

    fn check(c: &SampleCase, obs: &mut Obs) -> Result<(), Failure> {
        if c.via == 3 {
            return via_machine(c, obs);
        }
        let d = c.dist.to_dist();
        // validation itself runs here, under the watchdog (rand_distr constructors can loop)
        if d.validate().is_err() {
            obs.hit("rejected_by_validation");
            return Ok(());
        }
        obs.hit(c.dist.kind.family());
        if !c.words.is_empty() || c.dist.start.0 != 0.0 || c.dist.max.0 != 0.0 {
            obs.nontrivial();
        }
        if !c.words.is_empty() {
            obs.hit("scripted_prefix");
        }
        if c.dist.start.0.is_nan() || c.dist.max.0.is_nan() || c.dist.start.0.is_infinite() || c.dist.max.0.is_infinite() {
            obs.hit("start_or_max_nan_or_infinite");
        }

        if c.isolate {
            let triggers: [(u64, f64, Vec<u64>); 6] = [
                (1_000_000_000u64, 1.0 - 1e-9, vec![!0u64]),
                (1_000_000_000u64, 1e-9, vec![!0u64]),
                (1000u64, 0.001, vec![!0u64]),
                (1_000_000_000u64, 0.5, vec![!0u64, 0, !0u64, 0]),
                (1_000_000_000u64, 1e-8, vec![!0u64, 0, !0u64, 0]),
                (100u64, 0.5, vec![!0u64, 0, !0u64, 0]),
            ];
            for (trials, p, words) in triggers {
                obs.hit("isolated_demonstration");
                let tc = SampleCase {
                    dist: DistSpec {
                        kind: DistKind::Binomial { trials, probability: Fx(p) },
                        start: Fx(0.0),
                        max: Fx(0.0),
                    },
                    words,
                    seed: 1,
                    via: 0,
                    isolate: false,
                };
                let sig = match isolated_sample(&tc, Duration::from_secs(2)) {
                    Err(e) => panic!("cannot run the probe child process: {e}"),
                    Ok(None) => SIG_BINV.to_string(),
                    Ok(Some(Ok(v))) => {
                        check_value(&tc.dist, v, "isolated sample")?;
                        continue;
                    }
                    Ok(Some(Err(sig))) => sig,
                };
                if obs.strict {
                    return fail(sig.clone(), format!("{:?} with words {:x?}: {sig}", tc.dist, tc.words));
                }
                obs.known_hits.push(sig);
            }
            return Ok(());
        }

        let budget = c.words.len() as u64 + 100_000;
        let mut rng = ScriptRng::new(&c.words, c.seed).with_budget(budget);
        let binv = on_binv_path(&c.dist);
        match c.via {
            0 | 1 => {
                for i in 0..4 {
                    if let Some((n, p)) = binv {
                        // keep searching behind the listed no-return finding: skip the draw that triggers it
                        let mut peek = rng.clone();
                        let u: f64 = peek.gen();
                        if !binv_terminates(n, p, u) {
                            obs.known_hits.push(SIG_BINV.to_string());
                            obs.hit("excluded_binomial_inversion_no_return");
                            let _: f64 = rng.gen();
                            if obs.strict {
                                return fail(SIG_BINV, format!("{:?}: first uniform draw {u:?} of sample {i} makes the inversion loop run forever", c.dist));
                            }
                            continue;
                        }
                    }
                    if c.via == 0 {
                        let v = d.sample(&mut rng);
                        check_value(&c.dist, v, &format!("sample {i}"))?;
                        if v == f64::INFINITY {
                            obs.hit("infinite_sample_without_max");
                        }
                        if c.dist.max.0 > 0.0 && v == c.dist.max.0 {
                            obs.hit("clamped_to_max");
                        }
                    } else {
                        let cnt = Counter::new_dist(Operation::Set, d);
                        let _v: u64 = cnt.sample_value(&mut rng);
                        obs.hit("via_counter");
                    }
                }
            }
            _ => {
                if binv.is_some() {
                    // the framework path cannot skip single draws; Binomial/BINV is covered by via 0/1
                    return Ok(());
                }
                // a one-state machine using the distribution everywhere a distribution can be used
                let st = |action: ActionSpec| StateSpec {
                    action: Some(action),
                    counter_a: Some(CounterSpec { op: 0, dist: Some(c.dist), copy: false }),
                    counter_b: None,
                    trans: vec![(0, vec![(0, Fs(1.0))])],
                };
                let actions = [
                    ActionSpec::Pad { bypass: false, replace: false, timeout: c.dist, limit: Some(c.dist) },
                    ActionSpec::Block { bypass: false, replace: true, timeout: c.dist, duration: c.dist, limit: None },
                    ActionSpec::Timer { replace: false, duration: c.dist, limit: Some(c.dist) },
                ];
                let machines: Vec<MachineSpec> = actions
                    .iter()
                    .map(|a| MachineSpec {
                        allowed_padding_packets: u64::MAX,
                        max_padding_frac: Fx(0.0),
                        allowed_blocked_microsec: u64::MAX,
                        max_blocking_frac: Fx(0.0),
                        states: vec![st(*a)],
                    })
                    .collect();
                let case = FwCase {
                    machines: machines.clone(),
                    max_padding_frac: Fx(0.0),
                    max_blocking_frac: Fx(0.0),
                    start: 0,
                    words: c.words.clone(),
                    seed: c.seed,
                    calls: vec![],
                };
                let built = build_machines(&machines).map_err(|e| Failure {
                    signature: "machine-with-validated-dist-rejected".into(),
                    detail: e,
                })?;
                let mut run = FwRun::new(&case, built, Some(budget * 4)).map_err(|e| Failure {
                    signature: "framework-new-rejects-validated-machines".into(),
                    detail: e,
                })?;
                for _ in 0..3 {
                    let rec = run.call(&Call { clock: Clock::Add(10), events: vec![Ev::NormalRecv] });
                    for a in &rec.actions {
                        let (t, du) = match *a {
                            Act::Pad { timeout, .. } => (timeout, 0),
                            Act::Block { timeout, duration, .. } => (timeout, duration),
                            Act::Timer { duration, .. } => (0, duration),
                            _ => (0, 0),
                        };
                        if t > 86_400_000_000 || du > 86_400_000_000 {
                            return fail("timeout-or-duration-above-24h", format!("{a:?} from {:?}", c.dist));
                        }
                    }
                    obs.hit("via_framework");
                }
            }
        }
        Ok(())
    }

    fn required_classes() -> Vec<&'static str> {
        vec![
            "Uniform", "Normal", "SkewNormal", "LogNormal", "Binomial", "Geometric", "Pareto", "Poisson", "Weibull",
            "Gamma", "Beta", "scripted_prefix", "start_or_max_nan_or_infinite", "clamped_to_max", "via_counter",
            "via_framework", "via_machine_validation", "isolated_demonstration", "rejected_by_validation",
        ]
    }

    fn assumptions() -> Vec<&'static str> {
        vec![
            "'promptly' is decided deterministically: a sample that makes the random source hand out more than 100 000 words beyond the scripted prefix is a violation; loops that draw nothing are caught by the 2 s child-process limit (trigger profile) or the 60 s watchdog",
            "+infinity is accepted as a sample when no maximum is set (validation admits an infinite start); consumers must then clamp (checked through the framework path and C04)",
            "draws that would trigger the listed Binomial inversion no-return finding are skipped (predicted with a copy of the inversion loop, counted as excluded_known) so that the search continues behind it",
        ]
    }
}
