//! C12 — validation is sound: an independent well-formedness predicate judges
//! every machine that any acceptance path lets through, and the paths agree.

use std::str::FromStr;

use maybenot::constants::{STATE_END, STATE_SIGNAL};
use maybenot::{Framework, Machine};
use proptest::prelude::*;
use proptest::sample::select;
use serde::{Deserialize, Serialize};

use crate::gen::*;
use crate::mirror::*;
use crate::rng::ScriptRng;
use crate::rt::*;
use crate::spec::*;
use crate::vtime::VInstant;

pub struct C12;

#[derive(Clone, Debug, Serialize, Deserialize)]
pub struct Mutation {
    pub kind: u8,
    pub a: u16,
    pub b: u16,
    pub f: Fx,
    pub p: Fs,
    pub t: usize,
    pub d: DistSpec,
}

#[derive(Clone, Debug, Serialize, Deserialize)]
pub struct C12Case {
    pub base: MachineSpec,
    pub mutations: Vec<Mutation>,
    pub fw_padding_frac: Fx,
    pub fw_blocking_frac: Fx,
    pub seed: u64,
}

fn adversarial_f32() -> BoxedStrategy<f32> {
    prop_oneof![
        4 => select(vec![
            f32::NAN,
            -f32::NAN,
            f32::from_bits(0x7f80_0001),
            f32::INFINITY,
            f32::NEG_INFINITY,
            0.0,
            -0.0,
            f32::from_bits(1),
            -f32::from_bits(1),
            f32::MIN_POSITIVE,
            1.0,
            f32::from_bits(0x3f80_0001), // 1 + ulp
            f32::from_bits(0x3f7f_ffff), // 1 - ulp
            -1.0,
            2.0,
            0.5,
            f32::from_bits(0x3f00_0001), // 0.5 + ulp
            f32::EPSILON,
            5.9604645e-8, // 2^-24
            1.0e-6,
            8.0e-6,
            1.0e-5,
            1.0e-4,
            1.0e-3,
            f32::MAX,
        ]),
        1 => any::<u32>().prop_map(f32::from_bits),
        1 => (0.0f32..=1.0).boxed(),
    ]
    .boxed()
}

fn adversarial_target() -> BoxedStrategy<usize> {
    prop_oneof![
        3 => (0usize..8).boxed(),
        2 => select(vec![STATE_END, STATE_SIGNAL, STATE_SIGNAL - 1, STATE_END + 1, usize::MAX, 1usize << 40, 65_535]),
    ]
    .boxed()
}

pub fn mutation_strategy() -> BoxedStrategy<Mutation> {
    (
        0u8..12,
        any::<u16>(),
        any::<u16>(),
        any_f64(),
        adversarial_f32(),
        adversarial_target(),
        any_dist(),
    )
        .prop_map(|(kind, a, b, f, p, t, d)| Mutation { kind, a, b, f: Fx(f), p: Fs(p), t, d })
        .boxed()
}

/// apply the mutations; returns (spec, has_empty_list)
pub fn mutate(base: &MachineSpec, muts: &[Mutation]) -> MachineSpec {
    let mut m = base.clone();
    for mu in muts {
        let ns = m.states.len();
        match mu.kind {
            0 => m.max_padding_frac = mu.f,
            1 => m.max_blocking_frac = mu.f,
            2 => {
                // a probability
                if ns > 0 {
                    let s = &mut m.states[pick(mu.a, ns)];
                    if !s.trans.is_empty() {
                        let k = pick(mu.b, s.trans.len());
                        let l = &mut s.trans[k].1;
                        if !l.is_empty() {
                            let j = (mu.t) % l.len();
                            l[j].1 = mu.p;
                        }
                    }
                }
            }
            3 => {
                // a target (out of range, pseudo-state, duplicate)
                if ns > 0 {
                    let s = &mut m.states[pick(mu.a, ns)];
                    if !s.trans.is_empty() {
                        let k = pick(mu.b, s.trans.len());
                        let l = &mut s.trans[k].1;
                        if !l.is_empty() {
                            let j = (mu.p.0.to_bits() as usize) % l.len();
                            l[j].0 = mu.t;
                        }
                    }
                }
            }
            4 => {
                // append a transition (may duplicate a target or push the sum over 1)
                if ns > 0 {
                    let s = &mut m.states[pick(mu.a, ns)];
                    let e = (mu.b % 13) as u8;
                    match s.trans.iter_mut().find(|(k, _)| *k == e) {
                        Some((_, l)) => l.push((mu.t, mu.p)),
                        None => s.trans.push((e, vec![(mu.t, mu.p)])),
                    }
                }
            }
            5 => {
                // replace a distribution of an action
                if ns > 0 {
                    let s = &mut m.states[pick(mu.a, ns)];
                    let d = mu.d;
                    s.action = Some(match (mu.b % 4, s.action) {
                        (0, Some(ActionSpec::Pad { bypass, replace, limit, .. })) => {
                            ActionSpec::Pad { bypass, replace, timeout: d, limit }
                        }
                        (1, Some(ActionSpec::Pad { bypass, replace, timeout, .. })) => {
                            ActionSpec::Pad { bypass, replace, timeout, limit: Some(d) }
                        }
                        (0, Some(ActionSpec::Block { bypass, replace, duration, limit, .. })) => {
                            ActionSpec::Block { bypass, replace, timeout: d, duration, limit }
                        }
                        (1, Some(ActionSpec::Block { bypass, replace, timeout, limit, .. })) => {
                            ActionSpec::Block { bypass, replace, timeout, duration: d, limit }
                        }
                        (_, Some(ActionSpec::Block { bypass, replace, timeout, duration, .. })) => {
                            ActionSpec::Block { bypass, replace, timeout, duration, limit: Some(d) }
                        }
                        (0, Some(ActionSpec::Timer { replace, limit, .. })) => {
                            ActionSpec::Timer { replace, duration: d, limit }
                        }
                        (_, Some(ActionSpec::Timer { replace, duration, .. })) => {
                            ActionSpec::Timer { replace, duration, limit: Some(d) }
                        }
                        (2, _) => ActionSpec::Timer { replace: false, duration: d, limit: None },
                        (3, _) => ActionSpec::Block {
                            bypass: false,
                            replace: false,
                            timeout: DistSpec::constant(1.0),
                            duration: d,
                            limit: None,
                        },
                        _ => ActionSpec::Pad { bypass: false, replace: false, timeout: d, limit: None },
                    });
                }
            }
            6 => {
                // a counter distribution
                if ns > 0 {
                    let s = &mut m.states[pick(mu.a, ns)];
                    let c = CounterSpec { op: (mu.b % 3) as u8, dist: Some(mu.d), copy: mu.b % 5 == 0 };
                    if mu.b % 2 == 0 {
                        s.counter_a = Some(c);
                    } else {
                        s.counter_b = Some(c);
                    }
                }
            }
            7 => m.states.clear(),
            8 => {
                // an empty transition list (only a decoder can produce it)
                if ns > 0 {
                    let s = &mut m.states[pick(mu.a, ns)];
                    let e = (mu.b % 13) as u8;
                    s.trans.retain(|(k, _)| *k != e);
                    s.trans.push((e, vec![]));
                }
            }
            9 => {
                // two halves that sum to just above / exactly 1
                if ns > 0 {
                    let s = &mut m.states[pick(mu.a, ns)];
                    let e = (mu.b % 13) as u8;
                    s.trans.retain(|(k, _)| *k != e);
                    let second = if mu.t % 2 == 0 { f32::from_bits(0x3f00_0001) } else { 0.5 };
                    s.trans.push((e, vec![(0, Fs(0.5)), (STATE_END, Fs(second))]));
                }
            }
            10 => m.allowed_padding_packets = mu.t as u64,
            _ => m.allowed_blocked_microsec = mu.t as u64,
        }
    }
    m
}

fn has_empty_list(m: &MachineSpec) -> bool {
    m.states.iter().any(|s| s.trans.iter().any(|(_, l)| l.is_empty()))
}

fn real_in_unit(x: f64) -> bool {
    !x.is_nan() && (0.0..=1.0).contains(&x)
}

/// Parameters the statement singles out: probability parameters real in
/// [0,1], Uniform bounds finite and ordered, scale-type parameters not NaN.
fn dist_params_wellformed(d: &DistSpec) -> Result<(), String> {
    let nn = |name: &str, x: f64| if x.is_nan() { Err(format!("{name} is NaN")) } else { Ok(()) };
    match d.kind {
        DistKind::Uniform { low, high } => {
            if !low.0.is_finite() || !high.0.is_finite() {
                return Err("Uniform bound not finite".into());
            }
            if low.0 > high.0 {
                return Err("Uniform low > high".into());
            }
            if !(high.0 - low.0).is_finite() {
                return Err("Uniform range overflows".into());
            }
            Ok(())
        }
        DistKind::Normal { stdev, .. } => nn("stdev", stdev.0),
        DistKind::SkewNormal { scale, shape, .. } => {
            nn("scale", scale.0)?;
            nn("shape", shape.0)
        }
        DistKind::LogNormal { sigma, .. } => nn("sigma", sigma.0),
        DistKind::Binomial { probability, .. } | DistKind::Geometric { probability } => {
            if real_in_unit(probability.0) {
                Ok(())
            } else {
                Err(format!("probability {:?} not a real number in [0,1]", probability.0))
            }
        }
        DistKind::Pareto { scale, shape } | DistKind::Weibull { scale, shape } | DistKind::Gamma { scale, shape } => {
            nn("scale", scale.0)?;
            nn("shape", shape.0)
        }
        DistKind::Poisson { lambda } => nn("lambda", lambda.0),
        DistKind::Beta { alpha, beta } => {
            nn("alpha", alpha.0)?;
            nn("beta", beta.0)
        }
    }
}

/// fractions, states, targets and probabilities only (no distributions)
fn structurally_wellformed(m: &MachineSpec) -> bool {
    let mut stripped = m.clone();
    for s in stripped.states.iter_mut() {
        s.action = None;
        s.counter_a = None;
        s.counter_b = None;
    }
    wellformed(&stripped, &mut Obs::default()).is_ok()
}

/// The independent predicate.
pub fn wellformed(m: &MachineSpec, obs: &mut Obs) -> Result<(), String> {
    if !real_in_unit(m.max_padding_frac.0) {
        return Err(format!("max_padding_frac {:?} is not a real number in [0,1]", m.max_padding_frac.0));
    }
    if !real_in_unit(m.max_blocking_frac.0) {
        return Err(format!("max_blocking_frac {:?} is not a real number in [0,1]", m.max_blocking_frac.0));
    }
    let n = m.states.len();
    if n == 0 {
        return Err("no states".into());
    }
    for (si, s) in m.states.iter().enumerate() {
        for (e, l) in &s.trans {
            let mut seen: Vec<usize> = vec![];
            // exact sum in f64 (each f32 is exact in f64; up to a handful of addends)
            let mut sum = 0.0f64;
            for (t, p) in l {
                if *t >= n && *t != STATE_END && *t != STATE_SIGNAL {
                    return Err(format!("state {si} event {e}: target {t} is neither a state nor a pseudo-state"));
                }
                if seen.contains(t) {
                    return Err(format!("state {si} event {e}: duplicate target {t}"));
                }
                seen.push(*t);
                if p.0.is_nan() || !(p.0 > 0.0 && p.0 <= 1.0) {
                    return Err(format!("state {si} event {e}: probability {:?} not a real number in (0,1]", p.0));
                }
                sum += p.0 as f64;
            }
            // slack: the accepted f32 running sum is at most 1, and each of its k-1 additions
            // rounds by at most 2^-24 (worst case: a partial sum landing on 1.0)
            if sum > 1.0 + (l.len().saturating_sub(1)) as f64 * 2f64.powi(-24) {
                return Err(format!("state {si} event {e}: probabilities sum to {sum} > 1"));
            }
        }
        let mut dists: Vec<DistSpec> = vec![];
        if let Some(a) = &s.action {
            dists.extend(a.dists().into_iter().copied());
        }
        if let Some(c) = s.counter_a.and_then(|c| c.dist) {
            dists.push(c);
        }
        if let Some(c) = s.counter_b.and_then(|c| c.dist) {
            dists.push(c);
        }
        for d in dists {
            dist_params_wellformed(&d).map_err(|e| format!("state {si}: {:?}: {e}", d.kind))?;
            // sampling must not panic (fair stream, bounded)
            let dd = d.to_dist();
            let mut rng = ScriptRng::new(&[], 7).with_budget(200_000);
            match guarded(|| {
                for _ in 0..16 {
                    let _ = dd.sample(&mut rng);
                }
            }) {
                Caught::Ok(()) => {}
                Caught::Panic(p) => return Err(format!("state {si}: sampling {:?} panics: {}", d.kind, p.msg)),
                Caught::RngBudget(_) => return Err(format!("state {si}: sampling {:?} does not return", d.kind)),
                Caught::Harness(p) => panic!("harness panic while sampling: {}", p.msg),
            }
            obs.hit("dist_sampled");
        }
    }
    Ok(())
}

impl Prop for C12 {
    type Case = C12Case;
    fn admissible(c: &C12Case) -> bool {
        // the spec must be in the form the generator and `mutate` produce: one entry per event,
        // codes in range (a duplicated entry is silently overwritten when the machine is built,
        // so the predicate and the built machine would not talk about the same lists)
        let spec = mutate(&c.base, &c.mutations);
        c.base.states.len() <= 16
            && c.mutations.len() <= 16
            && spec.states.iter().all(|s| {
                let mut seen = [false; 13];
                s.trans.iter().all(|(e, _)| {
                    let ok = (*e as usize) < 13 && !seen[*e as usize % 13];
                    seen[*e as usize % 13] = true;
                    ok
                }) && s.counter_a.map(|c| c.op <= 2).unwrap_or(true)
                    && s.counter_b.map(|c| c.op <= 2).unwrap_or(true)
                    && match s.action {
                        Some(ActionSpec::Cancel { timer }) => timer <= 2,
                        _ => true,
                    }
            })
    }

    const ID: &'static str = "C12";
    const RULE: &'static str = "case = a generated valid machine (1..=4 states, all distribution families) with 0..=3 adversarial mutations: fraction <- {NaN (several payloads), +-inf, -0.0, subnormal, 1+-ulp, negative, random bits}; probability <- adversarial f32; target <- out of range / pseudo-state neighbours / duplicate; appended transitions (duplicates, sums just over 1); any distribution (valid or not) in actions and counters; empty state list; empty transition list (via the bincode mirror only); plus framework fractions from the same pool. Paths: Machine::new, validate() on the field-built value, from_str(encode(mirror)), Framework::new (alone, and listed before / after a well-formed machine). Non-trivial: >=1 mutation. Distinct = hash of the case.";

    fn profiles(tier: Tier) -> Vec<Profile> {
        match tier {
            Tier::Quick => vec![prof("mutated", 240_000)],
            Tier::Thorough => vec![prof("mutated", 5_000_000)],
        }
    }

    fn strategy(_profile: &str) -> BoxedStrategy<C12Case> {
        let mp = MachineParams {
            max_states: 4,
            dist: DistProfile::Wild,
            p_trans: [0.3; 13],
            ..MachineParams::default()
        };
        let fw_frac = || {
            prop_oneof![
                3 => select(vec![0.0, 0.5, 1.0]),
                1 => any_f64(),
            ]
        };
        (
            machine(&mp),
            proptest::collection::vec(mutation_strategy(), 0..=3),
            fw_frac(),
            fw_frac(),
            any::<u64>(),
        )
            .prop_map(|(base, mutations, a, b, seed)| C12Case {
                base,
                mutations,
                fw_padding_frac: Fx(a),
                fw_blocking_frac: Fx(b),
                seed,
            })
            .boxed()
    }

    fn check(c: &C12Case, obs: &mut Obs) -> Result<(), Failure> {
        let spec = mutate(&c.base, &c.mutations);
        if !c.mutations.is_empty() {
            obs.nontrivial();
        }
        let empty_list = has_empty_list(&spec);
        // what the field-built machine looks like (empty lists vanish in State::new)
        let field_spec = {
            let mut s = spec.clone();
            for st in s.states.iter_mut() {
                st.trans.retain(|(_, l)| !l.is_empty());
            }
            s
        };
        // the predicate samples distributions, which is only meaningful (and
        // only prompt) for machines some path accepted: evaluate it lazily
        let mut wf_field_cache: Option<Result<(), String>> = None;
        // path 1: Machine::new
        let v_new = spec.build();
        // path 2: validate() on the field-built value
        let unchecked = spec.build_unchecked();
        let v_validate = unchecked.validate();
        // path 3: from_str of the mirror encoding (keeps empty lists)
        let encoded = bincode_of(&mmachine(&spec));
        let fits = encoded.len() <= (1 << 20);
        let v_str = if fits { Some(Machine::from_str(&v2_string(&encoded))) } else { None };
        // path 4: Framework::new with valid framework fractions
        let v_fw = Framework::new(vec![unchecked.clone()], 0.0, 0.0, VInstant(0), ScriptRng::new(&[], c.seed)).map(|_| ());

        // path 5: Framework::new with a well-formed machine before / after the candidate
        let companion = {
            let mut t: enum_map::EnumMap<maybenot::event::Event, Vec<maybenot::state::Trans>> = Default::default();
            t[maybenot::event::Event::NormalSent] = vec![maybenot::state::Trans(0, 1.0)];
            Machine::new(0, 0.0, 0, 0.0, vec![maybenot::state::State::new(t)]).expect("companion machine")
        };
        let v_fw_after = Framework::new(vec![companion.clone(), unchecked.clone()], 0.0, 0.0, VInstant(0), ScriptRng::new(&[], c.seed)).map(|_| ());
        let v_fw_before = Framework::new(vec![unchecked.clone(), companion.clone()], 0.0, 0.0, VInstant(0), ScriptRng::new(&[], c.seed)).map(|_| ());

        let verdicts = [
            ("Machine::new", v_new.is_ok()),
            ("Machine::validate", v_validate.is_ok()),
            ("Framework::new", v_fw.is_ok()),
            ("Framework::new (after a valid machine)", v_fw_after.is_ok()),
            ("Framework::new (before a valid machine)", v_fw_before.is_ok()),
        ];
        for (name, ok) in verdicts {
            if ok {
                obs.hit("accepted");
                let wf_field = wf_field_cache.get_or_insert_with(|| wellformed(&field_spec, obs)).clone();
                if let Err(why) = &wf_field {
                    let class = classify(why);
                    return fail(
                        format!("accepted-but-not-wellformed: {class} ({name})"),
                        format!("{name} accepted a machine that is not well-formed: {why}"),
                    );
                }
            } else {
                obs.hit("rejected");
            }
        }
        if !(verdicts[0].1 == verdicts[1].1 && verdicts[1].1 == verdicts[2].1) {
            return fail("acceptance-paths-disagree", format!("{verdicts:?}"));
        }
        if let Some(r) = &v_str {
            match r {
                Ok(m) => {
                    obs.hit("accepted_from_str");
                    let wf_decoded = wellformed(&spec, obs).and_then(|_| {
                        if empty_list {
                            // a declared-but-empty list has no probability in (0,1] and sum 0: not well-formed
                            Err("empty transition list".to_string())
                        } else {
                            Ok(())
                        }
                    });
                    if let Err(why) = &wf_decoded {
                        let class = classify(why);
                        return fail(
                            format!("accepted-but-not-wellformed: {class} (Machine::from_str)"),
                            format!("from_str accepted an encoding of a machine that is not well-formed: {why}"),
                        );
                    }
                    // and what came out is the machine that went in
                    let back = MachineSpec::from_machine(m);
                    let canon = MachineSpec::from_machine(&unchecked);
                    if back != canon {
                        return fail("from_str-decoded-a-different-machine", format!("{back:?} vs {canon:?}"));
                    }
                }
                Err(_) => obs.hit("rejected_from_str"),
            }
            if !empty_list && r.is_ok() != verdicts[0].1 {
                return fail(
                    "acceptance-paths-disagree",
                    format!("Machine::from_str {} but Machine::new {}", r.is_ok(), verdicts[0].1),
                );
            }
            if empty_list {
                obs.hit("empty_transition_list_encoding");
            }
        }

        // completeness in the other direction is not claimed by the statement,
        // but measure it: well-formed yet rejected
        if !verdicts[0].1 && structurally_wellformed(&field_spec) {
            obs.hit("structurally_wellformed_but_rejected");
        }

        // framework fractions
        let (pf, bf) = (c.fw_padding_frac.0, c.fw_blocking_frac.0);
        if verdicts[0].1 {
            let r = Framework::new(vec![unchecked.clone()], pf, bf, VInstant(0), ScriptRng::new(&[], c.seed));
            let fr_ok = real_in_unit(pf) && real_in_unit(bf);
            match (r.is_ok(), fr_ok) {
                (true, false) => {
                    return fail(
                        "framework-accepts-invalid-fraction",
                        format!("Framework::new accepted fractions ({pf:?}, {bf:?})"),
                    )
                }
                (false, true) => {
                    return fail(
                        "framework-new-rejects-validated-machines",
                        format!("Framework::new rejected an accepted machine with fractions ({pf:?}, {bf:?})"),
                    )
                }
                (false, false) => obs.hit("framework_fraction_rejected"),
                (true, true) => {
                    // an accepted machine can be run
                    let mut fw = r.unwrap();
                    let evs = [
                        Ev::NormalSent,
                        Ev::PaddingSent(0),
                        Ev::BlockingBegin(0),
                        Ev::NormalRecv,
                        Ev::BlockingEnd,
                        Ev::TimerBegin(0),
                        Ev::TimerEnd(0),
                        Ev::TunnelSent,
                        Ev::TunnelRecv,
                        Ev::PaddingRecv,
                    ];
                    for (i, e) in evs.iter().cycle().take(30).enumerate() {
                        let _ = fw.trigger_events(&[e.to_trigger()], VInstant(i as u64 * 10)).count();
                    }
                    obs.hit("accepted_machine_run");
                }
            }
        }
        Ok(())
    }

    fn required_classes() -> Vec<&'static str> {
        vec![
            "accepted",
            "rejected",
            "accepted_from_str",
            "rejected_from_str",
            "empty_transition_list_encoding",
            "framework_fraction_rejected",
            "accepted_machine_run",
            "dist_sampled",
        ]
    }

    fn assumptions() -> Vec<&'static str> {
        vec![
            "well-formedness of distribution parameters is the reading the statement gives: probability parameters real in [0,1], Uniform bounds finite and ordered with finite range, no NaN in scale-type parameters, and 16 samples under a fair stream neither panic nor exceed the word budget; NaN in location parameters (Normal mean etc.) is not judged",
            "per-event probability sums are computed exactly in f64 with a slack of one f32 rounding (2^-24) per addition (k-1 for k addends)",
            "only soundness (accepted => well-formed) and agreement of the acceptance paths are judged; well-formed-but-rejected machines are only counted",
        ]
    }

    fn sample(c: &C12Case) -> serde_json::Value {
        serde_json::json!({"mutations": c.mutations.iter().map(|m| m.kind).collect::<Vec<_>>(), "mutated_machine": mutate(&c.base, &c.mutations), "framework_fractions": [c.fw_padding_frac.0, c.fw_blocking_frac.0]})
    }
}

fn classify(why: &str) -> &'static str {
    if why.contains("frac") {
        "fraction"
    } else if why.contains("probability") && why.contains("event") {
        "transition probability"
    } else if why.contains("sum to") {
        "probability sum"
    } else if why.contains("target") {
        "target"
    } else if why.contains("no states") {
        "no states"
    } else if why.contains("empty transition") {
        "empty transition list"
    } else if why.contains("panics") || why.contains("does not return") {
        "distribution that cannot be sampled"
    } else {
        "distribution parameter"
    }
}
