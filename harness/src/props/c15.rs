//! C15 — the simulator conserves packets and respects network causality.

use proptest::prelude::*;
use proptest::sample::select;

use crate::rt::*;
use crate::simrun::*;
use crate::spec::*;

pub struct C15;

pub fn sim_case(max_trace: usize, max_machines: usize, zero: bool, with_pps: bool) -> BoxedStrategy<SimCase> {
    let mp = sim_machine_params(zero);
    let pps = if with_pps {
        prop_oneof![
            6 => Just(None),
            1 => select(vec![Some(1usize), Some(2), Some(10), Some(1000), Some(u32::MAX as usize), Some(usize::MAX)]),
        ]
        .boxed()
    } else {
        Just(None).boxed()
    };
    (
        trace(max_trace),
        delay(),
        pps,
        sim_machines(max_machines, &mp),
        sim_machines(max_machines, &mp),
        sim_fracs(),
        seed(),
        (any::<bool>(), any::<bool>(), 200usize..1500),
        text_extras(),
    )
        .prop_map(|(trace, delay_ns, pps, client, server, fracs, seed, (continue_after, hand_queue, iters), (pad_lines, line_style))| SimCase {
            trace,
            delay_ns,
            pps,
            client,
            server,
            fracs,
            seed,
            max_trace_length: 0,
            max_sim_iterations: iters,
            continue_after,
            only_client: false,
            only_network: false,
            hand_queue,
            pad_lines,
            line_style,
            repeat: 0,
            base_ns: 0,
        })
        .boxed()
}

/// Does an injective matching of receives to *earlier* sends with send + delay <= recv exist?
/// `items`: the packets of one direction and kind in trace order, (time, is_send). "Earlier" is
/// by position in the time-ordered trace (with a zero delay send and receive share a timestamp).
/// Sends come in non-decreasing time, so giving each receive the oldest unmatched send is optimal.
fn matchable(items: &[(i128, bool)], delay: i128) -> Result<(), String> {
    let mut sends: std::collections::VecDeque<i128> = Default::default();
    for (k, (t, is_send)) in items.iter().enumerate() {
        if *is_send {
            sends.push_back(*t);
        } else {
            match sends.front() {
                Some(s) if *s + delay <= *t => {
                    sends.pop_front();
                }
                Some(s) => {
                    return Err(format!(
                        "the receive at {t} ns (item {k}) has no unmatched send at least one network delay ({delay} ns) before it: the oldest unmatched earlier send is at {s} ns"
                    ))
                }
                None => return Err(format!("the receive at {t} ns (item {k}) is not preceded by an unmatched send in the trace")),
            }
        }
    }
    Ok(())
}

pub fn sample_of(c: &SimCase) -> serde_json::Value {
    serde_json::json!({
        "trace_lines": c.trace.len(),
        "trace_head": trace_text(&c.trace[..c.trace.len().min(8)]),
        "delay_ns": c.delay_ns,
        "pps": c.pps,
        "client_machines": c.client.iter().filter_map(|m| m.build().ok().map(|m| m.serialize())).collect::<Vec<_>>(),
        "server_machines": c.server.iter().filter_map(|m| m.build().ok().map(|m| m.serialize())).collect::<Vec<_>>(),
        "fracs": c.fracs.iter().map(|f| f.0).collect::<Vec<_>>(),
        "seed": c.seed,
        "max_trace_length": c.max_trace_length,
        "max_sim_iterations": c.max_sim_iterations,
        "continue_after": c.continue_after,
        "hand_queue": c.hand_queue,
    })
}

impl Prop for C15 {
    type Case = SimCase;
    const ID: &'static str = "C15";
    const RULE: &'static str = "case = trace (1..=60 lines, bursts, both directions) x network delay x optional pps limit x 0..=3 machines on the client and 0..=3 on the server (light distributions from 0 us upwards; padding, blocking with all bypass/replace combinations, timers, cancels, counters, signals) x framework fractions x seed x continue-after flag, always with an iteration bound, unfiltered output; profile held_back: 840-3600 packets, one side blocked for 100-300 ms from its first packet (thousands of packets held back at the same time). Non-trivial: the run contains >=1 padding packet and >=1 blocking period, or a replace that swapped a queued normal packet for the padding (PaddingSent without a padding TunnelSent). Distinct = hash of the case.";

    fn profiles(tier: Tier) -> Vec<Profile> {
        match tier {
            Tier::Quick => vec![prof("sim", 48_000), prof("held_back", 48)],
            Tier::Thorough => vec![prof("sim", 500_000), prof("held_back", 600)],
        }
    }

    fn strategy(profile: &str) -> BoxedStrategy<SimCase> {
        if profile == "held_back" {
            // thousands of packets of one side held back by one long blocking at the same time
            return (30usize..60, 5_000u64..40_000, 28u32..60, 100_000.0f64..300_000.0, delay(), seed(), any::<bool>(), any::<bool>())
                .prop_map(|(n, gap, repeat, block_us, delay_ns, seed, bypass, on_server)| {
                    let mut trace: Vec<(u64, bool)> = (0..n as u64).map(|i| (i * gap, !on_server || i % 9 == 0)).collect();
                    if on_server {
                        // the server's packets are the trace's receives
                        for (i, x) in trace.iter_mut().enumerate() {
                            x.1 = i % 9 == 0;
                        }
                    }
                    let d = |v: f64| DistSpec::constant(v);
                    let blocker = MachineSpec {
                        allowed_padding_packets: 0,
                        max_padding_frac: Fx(0.0),
                        allowed_blocked_microsec: u64::MAX,
                        max_blocking_frac: Fx(0.0),
                        states: vec![
                            StateSpec { trans: vec![(3, vec![(1, Fs(1.0))])], ..StateSpec::default() },
                            StateSpec {
                                action: Some(ActionSpec::Block { bypass, replace: false, timeout: d(0.0), duration: d(block_us.round()), limit: None }),
                                ..StateSpec::default()
                            },
                        ],
                    };
                    let (client, server) = if on_server { (vec![], vec![blocker]) } else { (vec![blocker], vec![]) };
                    SimCase {
                        trace,
                        delay_ns,
                        pps: None,
                        client,
                        server,
                        fracs: [Fx(0.0); 4],
                        seed,
                        max_trace_length: 0,
                        max_sim_iterations: 60_000,
                        continue_after: false,
                        only_client: false,
                        only_network: false,
                        hand_queue: false,
                        pad_lines: vec![],
                        line_style: 0,
                        repeat,
                        base_ns: 0,
                    }
                })
                .boxed();
        }
        sim_case(60, 3, true, true)
    }

    fn check(c: &SimCase, obs: &mut Obs) -> Result<(), Failure> {
        let (mut sq, _) = build_queue(c);
        let client = machines_of(&c.client);
        let server = machines_of(&c.server);
        let out = run_advanced(c, &mut sq, &client, &server);
        if !c.hand_queue && c.line_style / 3 != 0 && c.trace.len() >= 2 {
            obs.hit("input_lines_in_scrambled_order");
        }
        let ev = &out.events;
        if ev.is_empty() {
            return fail("empty-output-for-non-empty-trace", String::new());
        }
        let anchor = ev[0].time;
        if ev.windows(2).any(|w| w[1].time < w[0].time) {
            return fail("trace-not-ordered-by-time", String::new());
        }
        let rs = recs(ev, anchor);
        let d = c.delay_ns as i128;
        // packets per (sender is client?, padding?), in trace order
        let mut flows: [[Vec<(i128, bool)>; 2]; 2] = Default::default();
        let mut sends: [[Vec<i128>; 2]; 2] = Default::default();
        let mut recvs: [[Vec<i128>; 2]; 2] = Default::default();
        let mut normal_sent_events = [0usize; 2];
        let mut padding_sent_events = 0usize;
        let mut blocking = 0usize;
        for r in &rs {
            match r.ev {
                Ev::TunnelSent => {
                    sends[r.client as usize][r.padding as usize].push(r.t);
                    flows[r.client as usize][r.padding as usize].push((r.t, true));
                }
                Ev::TunnelRecv => {
                    recvs[(!r.client) as usize][r.padding as usize].push(r.t);
                    flows[(!r.client) as usize][r.padding as usize].push((r.t, false));
                }
                Ev::NormalSent => normal_sent_events[r.client as usize] += 1,
                Ev::PaddingSent(_) => padding_sent_events += 1,
                Ev::BlockingBegin(_) => blocking += 1,
                _ => {}
            }
        }
        for side in 0..2 {
            for pad in 0..2 {
                let who = if side == 1 { "client" } else { "server" };
                let kind = if pad == 1 { "padding" } else { "normal" };
                if recvs[side][pad].len() > sends[side][pad].len() {
                    return fail(
                        format!("{kind}-packet-received-but-never-sent"),
                        format!("{} {kind} packets sent by the {who}, {} received by the other side", sends[side][pad].len(), recvs[side][pad].len()),
                    );
                }
                if let Err(e) = matchable(&flows[side][pad], d) {
                    return fail(
                        format!("{kind}-packet-received-before-sent-plus-delay"),
                        format!("{kind} packets sent by the {who}: {e}"),
                    );
                }
            }
        }
        let eff = effective_trace(c);
        let share = [eff.iter().filter(|x| !x.1).count(), eff.iter().filter(|x| x.1).count()];
        if eff.len() > 1024 && blocking > 0 {
            obs.hit("more_than_1024_packets_with_a_long_blocking");
        }
        for side in 0..2 {
            let who = if side == 1 { "client" } else { "server" };
            if sends[side][0].len() > share[side] || normal_sent_events[side] > share[side] {
                return fail(
                    "normal-packet-created-or-duplicated",
                    format!("{who}: {} normal TunnelSent / {} NormalSent for {} packets of the input trace", sends[side][0].len(), normal_sent_events[side], share[side]),
                );
            }
        }
        let stopped_by_bound = ev.len() >= c.max_sim_iterations || (c.max_trace_length > 0 && ev.len() >= c.max_trace_length);
        if !stopped_by_bound {
            obs.hit("ran_to_completion");
            for side in 0..2 {
                let who = if side == 1 { "client" } else { "server" };
                if sends[side][0].len() != share[side] || recvs[side][0].len() != share[side] {
                    return fail(
                        "normal-packet-lost",
                        format!("run ended with all normal packets processed, but {who} sent {} and the other side received {} of its {} normal packets", sends[side][0].len(), recvs[side][0].len(), share[side]),
                    );
                }
            }
        } else {
            obs.hit("stopped_by_iteration_bound");
        }
        let padding_packets = sends[0][1].len() + sends[1][1].len();
        if padding_packets > 0 {
            obs.hit("padding_packet");
        }
        if blocking > 0 {
            obs.hit("blocking_period");
        }
        let replaced = padding_sent_events > padding_packets && !stopped_by_bound;
        if replaced {
            obs.hit("padding_replaced_by_queued_normal");
        }
        if rs.iter().any(|r| matches!(r.ev, Ev::TunnelSent) && !r.padding && r.bypass) {
            obs.hit("normal_packet_with_bypass");
        }
        if (padding_packets > 0 && blocking > 0) || replaced {
            obs.nontrivial();
        }
        Ok(())
    }

    fn required_classes() -> Vec<&'static str> {
        vec!["ran_to_completion", "stopped_by_iteration_bound", "padding_packet", "blocking_period", "padding_replaced_by_queued_normal", "input_lines_in_scrambled_order", "more_than_1024_packets_with_a_long_blocking"]
    }

    fn assumptions() -> Vec<&'static str> {
        vec![
            "in unfiltered mode every simulator iteration records one event, so 'fewer events than max_sim_iterations' means the run ended because all normal packets were processed",
            "injective matching of each receive to an earlier send (earlier by position in the time-ordered trace, at least one delay earlier by time) is decided greedily with the oldest unmatched send, which succeeds iff any such matching exists (no false alarm from reordering under the bottleneck)",
            "no integration delays",
        ]
    }

    fn sample(c: &SimCase) -> serde_json::Value {
        sample_of(c)
    }
}
