//! C09 — signals: deliveries per call are counted from the step log and
//! compared with what the set of signalling machines prescribes.

use std::collections::BTreeSet;

use maybenot::constants::STATE_END;
use maybenot::event::Event;
use proptest::prelude::*;

use crate::fw::*;
use crate::gen::*;
use crate::rt::*;
use crate::spec::*;
use crate::steplog::{parse, Item};

pub struct C09;

impl Prop for C09 {
    type Case = FwCase;
    fn admissible(case: &FwCase) -> bool {
        crate::props::fw_admissible(case)
    }

    const ID: &'static str = "C09";
    const RULE: &'static str = "case = 1..=5 machines (<=3 states) with SIGNAL targets on external events, LimitReached, CounterZero and Signal, END targets, x multi-call histories with batches in which the same or different machines signal once or several times x scripted/seeded stream. Oracle: S = machines whose sampled target was SIGNAL before the delivery round, D(m) = Signal deliveries to live machine m, from the step log. Non-trivial: a call with S non-empty. Distinct = hash of the case.";

    fn profiles(tier: Tier) -> Vec<Profile> {
        match tier {
            Tier::Quick => vec![prof("signals", 160_000), prof("certain", 80_000), prof("many", 3_000), prof("capi", 8_000), prof("capi_long", 600)],
            Tier::Thorough => vec![prof("signals", 1_500_000), prof("certain", 700_000), prof("many", 40_000), prof("capi", 100_000), prof("capi_long", 8_000)],
        }
    }

    fn strategy(profile: &str) -> BoxedStrategy<FwCase> {
        let mut mp = MachineParams {
            max_states: 3,
            p_action: 0.6,
            p_limit: 0.5,
            p_counter: 0.4,
            w_regular: 5,
            w_end: 1,
            w_signal: 5,
            budgets: BudgetProfile::Unlimited,
            ..MachineParams::default()
        };
        mp.p_trans = [0.3; 13];
        mp.p_trans[8] = 0.5;
        mp.p_trans[9] = 0.5;
        mp.p_trans[12] = 0.7;
        let hp = HistParams {
            min_calls: 2,
            max_calls: 30,
            max_batch: 5,
            clock: ClockProfile::Monotone,
            ..HistParams::default()
        };
        match profile {
            "signals" => {}
            "certain" => mp.prob_style = 1,
            "capi" => {
                // signalling for C callers
                return crate::props::capi_case(1..=5, |m| { m.max_states = 3; m.w_signal = 5; m.p_trans[12] = 0.7; m.budgets = BudgetProfile::Unlimited; }, &hp);
            }
            "capi_long" => {
                // one call of hundreds of events (one signal round per call, however long the batch)
                let hp2 = HistParams { min_calls: 2, max_calls: 10, max_batch: 6, clock: ClockProfile::Monotone, ..HistParams::default() };
                return (crate::props::capi_case(2..=4, |m| { m.max_states = 3; m.w_signal = 5; m.p_trans[12] = 0.7; m.budgets = BudgetProfile::Unlimited; }, &hp2), 130usize..700)
                    .prop_map(|(mut c, len)| {
                        let flat: Vec<Ev> = c.calls.iter().flat_map(|x| x.events.iter().copied()).collect();
                        if !flat.is_empty() {
                            let long: Vec<Ev> = flat.iter().cycle().take(len).copied().collect();
                            c.calls.insert(0, Call { clock: Clock::Add(1), events: long });
                        }
                        c
                    })
                    .boxed();
            }
            "many" => {
                // more machines than any machine-word has bits
                mp.max_states = 2;
                mp.prob_style = 1;
                let hp = HistParams { min_calls: 2, max_calls: 8, max_batch: 4, clock: ClockProfile::Monotone, ..HistParams::default() };
                return fw_case(65..=140, &mp, &hp, false, 0);
            }
            _ => panic!("unknown profile"),
        }
        fw_case(1..=5, &mp, &hp, false, 12)
    }

    fn check(case: &FwCase, obs: &mut Obs) -> Result<(), Failure> {
        let machines = build_machines(&case.machines)
            .unwrap_or_else(|e| panic!("generator produced a machine that Machine::new rejects: {e}"));
        let n = machines.len();
        if n > 64 {
            obs.hit("more_than_64_machines");
        }
        if case.seed == crate::props::CAPI_MARK {
            crate::props::capi_pass(case, obs)?;
        }
        let mut run = FwRun::new(case, machines, Some(50_000_000))
            .map_err(|e| Failure { signature: "framework-new-rejects-validated-machines".into(), detail: e })?;
        let mut nt = false;
        for (ci, c) in case.calls.iter().enumerate() {
            let rec = run.call(c);
            let parsed = parse(&rec.steps);
            // signallers before the round, answers during the round
            let mut s_before: BTreeSet<usize> = BTreeSet::new();
            let mut count_before = vec![0u32; n];
            let mut answered_first_round = false;
            let mut delivered = vec![0u32; n]; // to live machines
            let mut delivered_any = vec![0u32; n];
            let mut excluded_answered = false;
            // order of deliveries in the round
            let mut round: Vec<usize> = vec![];
            for it in &parsed.items {
                let Item::Delivery(node) = it else { continue };
                let in_round = node.ext == usize::MAX;
                if in_round {
                    if node.event != Event::Signal {
                        return fail("non-signal-delivery-in-signal-round", format!("call {ci}: {:?}", node.event));
                    }
                    delivered_any[node.machine] += 1;
                    if node.state_before != STATE_END {
                        delivered[node.machine] += 1;
                    }
                    round.push(node.machine);
                } else if node.event == Event::Signal {
                    return fail("signal-delivered-before-end-of-call", format!("call {ci}: machine {}", node.machine));
                }
                node.walk(&mut |x| {
                    if x.signalled() {
                        if in_round {
                            // an answer; is it from the lone signaller itself?
                            if s_before.len() == 1 && s_before.contains(&x.machine) {
                                excluded_answered = true;
                            } else {
                                answered_first_round = true;
                            }
                        } else {
                            s_before.insert(x.machine);
                            count_before[x.machine] += 1;
                        }
                    }
                });
            }
            let live: Vec<bool> = (0..n).map(|m| {
                // live when its turn came: a delivery with state_before != END, or no delivery and not ended now
                rec.snap.machines[m].state != STATE_END || delivered[m] > 0
            }).collect();
            for m in 0..n {
                if delivered[m] > 1 || delivered_any[m] > 1 {
                    return fail(
                        "signal-delivered-twice",
                        format!("call {ci}: machine {m} received {} Signal events in one call", delivered_any[m]),
                    );
                }
            }
            if s_before.is_empty() {
                if !round.is_empty() {
                    obs.hit("round_without_signaller_in_this_call");
                }
                continue;
            }
            nt = true;
            obs.hit("call_with_signal");
            if count_before.iter().any(|c| *c >= 2) {
                obs.hit("same_machine_signals_twice");
            }
            if rec.snap.machines.iter().any(|m| m.state == STATE_END) {
                obs.hit("ended_machine_present");
            }
            if s_before.len() == 1 {
                let x = *s_before.iter().next().unwrap();
                obs.hit("lone_signaller");
                for m in 0..n {
                    if m == x {
                        continue;
                    }
                    if live[m] && delivered[m] != 1 {
                        return fail(
                            "signal-not-delivered-to-other-machine",
                            format!("call {ci}: machine {x} was the only signaller but live machine {m} received {} Signal events", delivered[m]),
                        );
                    }
                }
                if answered_first_round {
                    obs.hit("answer_during_round");
                    if live[x] && delivered[x] != 1 {
                        return fail(
                            "answer-not-delivered-to-lone-signaller",
                            format!("call {ci}: a machine answered the signal of lone signaller {x} by signalling, but {x} received {} Signal events", delivered[x]),
                        );
                    }
                    if excluded_answered {
                        obs.hit("answer_to_the_answer");
                    }
                } else if delivered_any[x] != 0 {
                    return fail(
                        "lone-signaller-received-own-signal",
                        format!(
                            "call {ci}: machine {x} was the only machine that signalled ({} time(s)) and nobody answered, yet it received a Signal",
                            count_before[x]
                        ),
                    );
                }
            } else {
                obs.hit("two_or_more_signallers");
                for m in 0..n {
                    if live[m] && delivered[m] != 1 {
                        return fail(
                            "signal-not-delivered-to-all",
                            format!("call {ci}: machines {s_before:?} signalled but live machine {m} received {} Signal events", delivered[m]),
                        );
                    }
                }
            }
        }
        if nt {
            obs.nontrivial();
        }
        Ok(())
    }

    fn required_classes() -> Vec<&'static str> {
        vec![
            "more_than_64_machines",
            "lone_signaller",
            "two_or_more_signallers",
            "same_machine_signals_twice",
            "answer_during_round",
            "answer_to_the_answer",
            "ended_machine_present",
        ]
    }

    fn assumptions() -> Vec<&'static str> {
        vec![
            "deliveries and sampled SIGNAL targets are read from the verif hook's step log; the hook marks the delivery round",
            "a delivery round in a call in which nobody signalled is not forbidden by the statement itself; it is counted (class round_without_signaller_in_this_call) and decided by C05's reference model",
        ]
    }

    fn sample(case: &FwCase) -> serde_json::Value {
        crate::props::fw_sample(case)
    }
}
