//! C11 — machine strings round-trip exactly; hostile strings are rejected
//! safely (no panic, bounded memory for the current format).

use std::str::FromStr;

use bincode::Options;
use maybenot::constants::MAX_DECOMPRESSED_SIZE;
use maybenot::parsing::parse_v1_machine;
use maybenot::{Framework, Machine};
use proptest::prelude::*;
use proptest::sample::select;
use serde::{Deserialize, Serialize};

use crate::alloc_count::measure_peak;
use crate::fw::conv_action;
use crate::gen::*;
use crate::mirror::*;
use crate::props::c12::{mutate, Mutation};
use crate::rng::ScriptRng;
use crate::rt::*;
use crate::spec::*;
use crate::vtime::VInstant;

pub struct C11;

#[derive(Clone, Debug, Serialize, Deserialize)]
pub struct ByteMut {
    /// position, mapped monotonically onto the buffer
    pub pos: u16,
    /// 0 flip bit, 1 set byte, 2 insert byte, 3 delete byte, 4 duplicate a slice, 5 set to 0xff run
    pub kind: u8,
    pub val: u8,
}

#[derive(Clone, Debug, Serialize, Deserialize)]
pub enum Case {
    /// a valid machine: `templates` states repeated until `states` states exist;
    /// `fit`: 0 as generated, 1 pad to just under 1 MiB, 2 exactly 1 MiB, 3 just over
    RoundTrip { templates: MachineSpec, states: u32, fit: u8, seed: u64 },
    /// arbitrary text
    Text { s: String },
    /// a valid encoding mutated at one layer: 0 the string itself, 1 the zlib stream, 2 the bincode payload
    Mutated { base: MachineSpec, layer: u8, muts: Vec<ByteMut>, truncate: Option<u16>, version: Option<String> },
    /// adversarial contents encoded through the mirror struct
    Mirror { base: MachineSpec, mutations: Vec<Mutation> },
    /// compression bomb: `mib` MiB that decompress from a tiny stream;
    /// kind 0: zeros, 1: a valid machine prefix then zeros, 2: 0xff bytes (huge length prefixes)
    Bomb { kind: u8, mib: u32 },
    /// legacy v1 hex strings: a structured payload with mutations
    V1 { machine: V1Machine, muts: Vec<ByteMut>, truncate: Option<u16>, bomb_mib: u32 },
    /// arbitrary text to the v1 parser
    V1Text { s: String },
}

#[derive(Clone, Debug, Serialize, Deserialize)]
pub struct V1Dist {
    pub kind: u16,
    pub p1: Fx,
    pub p2: Fx,
    pub start: Fx,
    pub max: Fx,
}

#[derive(Clone, Debug, Serialize, Deserialize)]
pub struct V1State {
    pub duration: V1Dist,
    pub limit: V1Dist,
    pub timeout: V1Dist,
    pub flags: [u8; 4],
    /// 8 rows (7 events + 1 legacy row) x (num_states + 2) probabilities
    pub probs: Vec<Fx>,
}

#[derive(Clone, Debug, Serialize, Deserialize)]
pub struct V1Machine {
    pub version: u16,
    pub allowed_padding_packets: u64,
    pub max_padding_frac: Fx,
    pub allowed_blocked_microsec: u64,
    pub max_blocking_frac: Fx,
    pub flag: u8,
    pub declared_states: u16,
    pub states: Vec<V1State>,
}

fn v1_bytes(m: &V1Machine) -> Vec<u8> {
    let mut b = vec![];
    b.extend_from_slice(&m.version.to_le_bytes());
    b.extend_from_slice(&m.allowed_padding_packets.to_le_bytes());
    b.extend_from_slice(&m.max_padding_frac.0.to_le_bytes());
    b.extend_from_slice(&m.allowed_blocked_microsec.to_le_bytes());
    b.extend_from_slice(&m.max_blocking_frac.0.to_le_bytes());
    b.push(m.flag);
    b.extend_from_slice(&m.declared_states.to_le_bytes());
    for s in &m.states {
        for d in [&s.duration, &s.limit, &s.timeout] {
            b.extend_from_slice(&d.kind.to_le_bytes());
            for f in [d.p1, d.p2, d.start, d.max] {
                b.extend_from_slice(&f.0.to_le_bytes());
            }
        }
        b.extend_from_slice(&s.flags);
        for p in &s.probs {
            b.extend_from_slice(&p.0.to_le_bytes());
        }
    }
    b
}

fn v1_dist() -> BoxedStrategy<V1Dist> {
    let mostly_valid = (0u16..=11, 0.0f64..1000.0, 0.0f64..1000.0, 0.0f64..=1.0).prop_map(|(kind, a, b, p)| {
        let (p1, p2) = match kind {
            1 => (a.min(b), a.max(b)),
            4 => (a.round(), p),
            6 | 8 | 9 | 10 => (a + 0.001, b + 0.001),
            _ => (a, b),
        };
        V1Dist { kind, p1: Fx(p1), p2: Fx(p2), start: Fx(0.0), max: Fx(0.0) }
    });
    let hostile = (
        prop_oneof![4 => 0u16..=11, 1 => any::<u16>()],
        any_f64(),
        any_f64(),
        prop_oneof![3 => Just(0.0).boxed(), 1 => any_f64()],
        prop_oneof![3 => Just(0.0).boxed(), 1 => any_f64()],
    )
        .prop_map(|(kind, p1, p2, start, max)| V1Dist { kind, p1: Fx(p1), p2: Fx(p2), start: Fx(start), max: Fx(max) });
    prop_oneof![8 => mostly_valid, 1 => hostile].boxed()
}

fn v1_machine() -> BoxedStrategy<V1Machine> {
    (0usize..=4)
        .prop_flat_map(|n| {
            // per event: no transition, one certain/half transition, or two
            let row = (0u8..20, any::<u16>(), any::<u16>(), any_f64()).prop_map(move |(sel, i, j, wild)| {
                let mut r = vec![0.0f64; n + 2];
                let idx = |x: u16| {
                    let k = pick(x, n + 1);
                    if k == n { n + 1 } else { k }
                };
                match sel {
                    0..=9 => {}
                    10..=14 => r[idx(i)] = 1.0,
                    15..=16 => r[idx(i)] = 0.5,
                    17 => {
                        r[idx(i)] = 0.5;
                        let k = idx(j);
                        if r[k] == 0.0 {
                            r[k] = 0.25;
                        }
                    }
                    18 => r[pick(i, n + 2)] = wild,
                    _ => r[n] = 1.0,
                }
                r
            });
            let state = (
                v1_dist(),
                v1_dist(),
                v1_dist(),
                proptest::collection::vec(0u8..3, 4),
                proptest::collection::vec(row, 7),
            )
                .prop_map(move |(duration, limit, timeout, fl, rows)| V1State {
                    duration,
                    limit,
                    timeout,
                    flags: [fl[0], fl[1], fl[2], fl[3]],
                    // 7 parsed rows plus one legacy row the parser skips
                    probs: rows
                        .into_iter()
                        .flatten()
                        .chain(std::iter::repeat(0.0).take(n + 2))
                        .map(Fx)
                        .collect(),
                });
            (
                prop_oneof![12 => Just(1u16), 1 => any::<u16>()],
                any::<u64>(),
                prop_oneof![5 => (0.0f64..=1.0).boxed(), 1 => any_f64()],
                any::<u64>(),
                prop_oneof![5 => (0.0f64..=1.0).boxed(), 1 => any_f64()],
                any::<u8>(),
                prop_oneof![12 => Just(n as u16), 1 => any::<u16>()],
                proptest::collection::vec(state, n..=n),
            )
        })
        .prop_map(|(version, app, mpf, abm, mbf, flag, declared_states, states)| V1Machine {
            version,
            allowed_padding_packets: app,
            max_padding_frac: Fx(mpf),
            allowed_blocked_microsec: abm,
            max_blocking_frac: Fx(mbf),
            flag,
            declared_states,
            states,
        })
        .boxed()
}

fn byte_muts(max: usize) -> BoxedStrategy<Vec<ByteMut>> {
    proptest::collection::vec(
        (any::<u16>(), 0u8..6, any::<u8>()).prop_map(|(pos, kind, val)| ByteMut { pos, kind, val }),
        0..=max,
    )
    .boxed()
}

fn apply_muts(buf: &mut Vec<u8>, muts: &[ByteMut]) {
    for m in muts {
        if buf.is_empty() {
            buf.push(m.val);
            continue;
        }
        let i = pick(m.pos, buf.len());
        match m.kind {
            0 => buf[i] ^= 1 << (m.val % 8),
            1 => buf[i] = m.val,
            2 => buf.insert(i, m.val),
            3 => {
                buf.remove(i);
            }
            4 => {
                let end = (i + 1 + m.val as usize).min(buf.len());
                let slice = buf[i..end].to_vec();
                for (k, b) in slice.into_iter().enumerate() {
                    buf.insert(end + k, b);
                }
            }
            _ => {
                let end = (i + 1 + (m.val % 10) as usize).min(buf.len());
                for b in &mut buf[i..end] {
                    *b = 0xff;
                }
            }
        }
    }
}

/// Expand the template machine to `states` states (targets stay within range
/// because templates only refer to template indices).
pub fn expand(templates: &MachineSpec, states: u32) -> MachineSpec {
    let t = templates.states.len().max(1);
    let n = (states as usize).max(t);
    let mut m = templates.clone();
    if templates.states.is_empty() {
        return m;
    }
    m.states = (0..n).map(|i| templates.states[i % t].clone()).collect();
    m
}

fn bincode_len(m: &Machine) -> u64 {
    bincode::DefaultOptions::new().serialized_size(m).expect("size")
}

/// Pad a machine with empty states (16 bytes each in bincode) and widen varint
/// fields so that its encoding has exactly / nearly `target` bytes.
fn fit_to(spec: &mut MachineSpec, target: u64) -> Option<Machine> {
    spec.allowed_padding_packets = 1;
    spec.allowed_blocked_microsec = 1;
    let mut m = spec.build().ok()?;
    let mut len = bincode_len(&m);
    if len > target {
        // drop states from the end while keeping targets valid: only when the tail is unreferenced
        return None;
    }
    let empty = StateSpec::default();
    let room = (target - len) / 16;
    // adding states can lengthen the varint of the state count: leave slack, then correct
    let add = room.saturating_sub(1);
    for _ in 0..add {
        spec.states.push(empty.clone());
    }
    m = spec.build().ok()?;
    len = bincode_len(&m);
    while target >= len + 16 {
        spec.states.push(empty.clone());
        m = spec.build().ok()?;
        len = bincode_len(&m);
    }
    // remaining gap < 16: varint widths of the two u64 budgets (1, 3, 5, 9 bytes) and
    // one optional counter (3 bytes) on an empty state
    let gap = target.saturating_sub(len);
    let widths = [(1u64, 0u64), (300, 2), (70_000, 4), (1u64 << 40, 8)];
    'outer: for (v1, d1) in widths {
        for (v2, d2) in widths {
            for odd in [0u64, 3] {
                if d1 + d2 + odd == gap {
                    spec.allowed_padding_packets = v1;
                    spec.allowed_blocked_microsec = v2;
                    if odd == 3 {
                        if let Some(s) = spec.states.iter_mut().rev().find(|s| s.counter_a.is_none()) {
                            s.counter_a = Some(CounterSpec { op: 0, dist: None, copy: false });
                        }
                    }
                    break 'outer;
                }
            }
        }
    }
    spec.build().ok()
}

fn run_events(m: &Machine, seed: u64) -> Vec<Vec<crate::spec::Act>> {
    let mut fw = match Framework::new(vec![m.clone()], 0.0, 0.0, VInstant(0), ScriptRng::new(&[], seed)) {
        Ok(f) => f,
        Err(_) => return vec![],
    };
    let evs = [
        Ev::NormalSent,
        Ev::PaddingSent(0),
        Ev::NormalRecv,
        Ev::BlockingBegin(0),
        Ev::TunnelSent,
        Ev::BlockingEnd,
        Ev::TimerBegin(0),
        Ev::PaddingRecv,
        Ev::TimerEnd(0),
        Ev::TunnelRecv,
    ];
    let mut out = vec![];
    let mut x = seed | 1;
    for i in 0..50u64 {
        x ^= x << 13;
        x ^= x >> 7;
        x ^= x << 17;
        let e = evs[(x % evs.len() as u64) as usize];
        out.push(
            fw.trigger_events(&[e.to_trigger()], VInstant(i * 100))
                .map(conv_action)
                .collect(),
        );
    }
    out
}

/// the memory bound of the statement: a constant fixed by the 1 MiB limit plus the input length
fn memory_bound(input_len: usize) -> usize {
    let per_state = std::mem::size_of::<maybenot::state::State>().div_ceil(16);
    2 * (1 << 20) + 3 * per_state * (1 << 20) + 3 * input_len
}

/// Err or Ok(valid machine); never a panic (the runner turns panics into violations)
fn judge_v2(s: &str, obs: &mut Obs, what: &str) -> Result<Option<Machine>, Failure> {
    let (r, peak) = measure_peak(|| Machine::from_str(s));
    let bound = memory_bound(s.len());
    if peak > bound {
        return fail(
            "from_str-memory-above-bound",
            format!("{what}: parsing a string of {} bytes had {} bytes live at its peak (bound {})", s.len(), peak, bound),
        );
    }
    obs.add("peak_kib_sum", (peak / 1024) as u64);
    // a parse leaves nothing behind: a known-good string still parses right afterwards on this thread
    {
        static GOOD: std::sync::OnceLock<(String, Machine)> = std::sync::OnceLock::new();
        let (gs, gm) = GOOD.get_or_init(|| {
            let mut t: enum_map::EnumMap<maybenot::event::Event, Vec<maybenot::state::Trans>> = Default::default();
            t[maybenot::event::Event::NormalSent] = vec![maybenot::state::Trans(0, 1.0)];
            let m = Machine::new(7, 0.5, 9, 0.25, vec![maybenot::state::State::new(t)]).expect("reference machine");
            (m.serialize(), m)
        });
        match Machine::from_str(gs) {
            Ok(m2) if m2.serialize() == gm.serialize() => {}
            other => {
                return fail(
                    "valid-string-not-parsed-after-another-parse",
                    format!("{what}: after parsing a string of {} bytes (result: {}), the reference machine string gives {:?}", s.len(), if r.is_ok() { "accepted" } else { "rejected" }, other.map(|_| "a different machine").map_err(|e| e.to_string())),
                )
            }
        }
    }
    match r {
        Err(_) => {
            obs.hit("rejected");
            Ok(None)
        }
        Ok(m) => {
            obs.hit("accepted");
            if let Err(e) = m.validate() {
                return fail(
                    "from_str-returned-invalid-machine",
                    format!("{what}: parsed machine fails validation: {e}"),
                );
            }
            Ok(Some(m))
        }
    }
}

fn small_params() -> MachineParams {
    MachineParams {
        max_states: 6,
        dist: DistProfile::Wild,
        p_trans: [0.3; 13],
        ..MachineParams::default()
    }
}

impl Prop for C11 {
    type Case = Case;
    /// (big bombs and machines are the generated tiers' business: the mutator would otherwise turn
    /// every input into one and the campaign would crawl)
    fn admissible(case: &Case) -> bool {
        match case {
            Case::RoundTrip { templates, states, .. } => *states <= 3_000 && templates.states.len() <= 3_000 && templates.build().is_ok(),
            Case::Text { s } | Case::V1Text { s } => s.len() <= 100_000,
            Case::Mutated { base, muts, .. } => base.states.len() <= 64 && crate::props::canonical(base) && muts.len() <= 32,
            Case::Mirror { base, mutations } => base.states.len() <= 64 && mutations.len() <= 16,
            Case::Bomb { mib, .. } => *mib <= 4,
            Case::V1 { machine, muts, bomb_mib, .. } => machine.states.len() <= 16 && muts.len() <= 32 && *bomb_mib <= 1,
        }
    }

    const ID: &'static str = "C11";
    const RULE: &'static str = "round-trip cases: generated valid machines of every action/distribution/counter variant with extreme numeric fields, 1 to ~65 000 states, including machines padded to just under / exactly / just over 1 MiB of bincode. Hostile cases: arbitrary (also non-ASCII) text; valid encodings with bit flips, byte edits, insertions, deletions, splices and truncations applied at the string, zlib or bincode layer (outer layers re-encoded), wrong version prefixes; bincode payloads built from a mirror struct with out-of-range contents; zlib bombs (zeros, valid prefix + zeros, 0xff) of 2 MiB..4 GiB; legacy v1 payloads (structured generator + mutations, bombs <= 64 MiB, arbitrary text). Non-trivial: round-trip of a machine with >=2 states and >=1 distribution; hostile input that passed base64 and zlib (reached bincode), or a bomb, or a v1 payload that reached the state parser. Distinct = hash of the case.";

    fn profiles(tier: Tier) -> Vec<Profile> {
        match tier {
            Tier::Quick => vec![
                prof("roundtrip", 6_000),
                prof("large", 160),
                prof("large_random", 64),
                prof("huge_random", 16),
                prof("text", 8_000),
                prof("mutated", 30_000),
                prof("mirror", 10_000),
                prof("bomb", 24),
                prof("v1", 20_000),
            ],
            Tier::Thorough => vec![
                prof("roundtrip", 200_000),
                prof("large", 4_000),
                prof("large_random", 1_500),
                prof("huge_random", 200),
                prof("text", 200_000),
                prof("mutated", 1_500_000),
                prof("mirror", 400_000),
                prof("bomb", 64),
                prof("v1", 800_000),
            ],
        }
    }

    fn strategy(profile: &str) -> BoxedStrategy<Case> {
        match profile {
            "roundtrip" => (machine(&small_params()), any::<u64>())
                .prop_map(|(templates, seed)| Case::RoundTrip { states: templates.states.len() as u32, templates, fit: 0, seed })
                .boxed(),
            "large" => {
                let mp = MachineParams { dist: DistProfile::Const, w_end: 1, w_signal: 1, ..small_params() };
                (
                    machine(&mp),
                    prop_oneof![100u32..3000, 3000u32..40_000],
                    0u8..4,
                    any::<u64>(),
                )
                    .prop_map(|(templates, states, fit, seed)| Case::RoundTrip { templates, states, fit, seed })
                    .boxed()
            }
            "large_random" => {
                // every state different, random parameters: the encoding does not compress well
                let mp = MachineParams { min_states: 200, max_states: 1500, dist: DistProfile::Wild, p_trans: [0.25; 13], ..MachineParams::default() };
                (machine(&mp), any::<u64>())
                    .prop_map(|(templates, seed)| Case::RoundTrip { states: templates.states.len() as u32, templates, fit: 0, seed })
                    .boxed()
            }
            "huge_random" => {
                // close to the 1 MiB limit AND incompressible (random mantissas everywhere): the
                // serialized string is longer than 1 MiB of text although the encoding fits the limit
                (any::<u64>(), prop_oneof![3 => 5900u32..6300, 1 => 3000u32..6500])
                    .prop_map(|(seed, n)| {
                        let mut x = seed | 1;
                        let mut r = move || {
                            x ^= x << 13;
                            x ^= x >> 7;
                            x ^= x << 17;
                            // a finite positive f64 with a random mantissa, magnitude up to ~1e6
                            (x >> 11) as f64 / (1u64 << 33) as f64
                        };
                        let mut d = || {
                            let low = r();
                            let high = low + r();
                            DistSpec { kind: DistKind::Uniform { low: Fx(low), high: Fx(high) }, start: Fx(r()), max: Fx(r() + 2e6) }
                        };
                        let states = (0..n)
                            .map(|i| StateSpec {
                                action: Some(ActionSpec::Block { bypass: i % 2 == 0, replace: i % 3 == 0, timeout: d(), duration: d(), limit: Some(d()) }),
                                counter_a: Some(CounterSpec { op: (i % 3) as u8, dist: Some(d()), copy: false }),
                                counter_b: None,
                                trans: vec![(3, vec![(((i + 1) % n) as usize, Fs(1.0))])],
                            })
                            .collect();
                        let templates = MachineSpec {
                            allowed_padding_packets: seed,
                            max_padding_frac: Fx(0.5),
                            allowed_blocked_microsec: seed >> 3,
                            max_blocking_frac: Fx(0.25),
                            states,
                        };
                        Case::RoundTrip { states: n, templates, fit: 0, seed }
                    })
                    .boxed()
            }
            "text" => prop_oneof![
                ".{0,64}".prop_map(|s| Case::Text { s }),
                "[0-9]{0,3}[A-Za-z0-9+/=]{0,200}".prop_map(|s| Case::Text { s }),
                "02[A-Za-z0-9+/]{0,300}={0,2}".prop_map(|s| Case::Text { s }),
                "(02|01|00|03|99|2|é2|０２)eN[A-Za-z0-9+/]{0,80}={0,2}".prop_map(|s| Case::Text { s }),
                // whitespace-heavy strings (what a "tolerant" trim would meet)
                "[ \n\r\t]{0,6}".prop_map(|s| Case::Text { s }),
                "[0-9 \n\r\t]{0,5}".prop_map(|s| Case::Text { s }),
                "[ \n\r\t]{0,3}02eNpjYEAHjOgCAAA0AAI=[ \n\r\t]{0,3}".prop_map(|s| Case::Text { s }),
                // a very short compressed payload (zlib header bytes favoured), properly base64-encoded
                (proptest::collection::vec(prop_oneof![select(vec![0x78u8, 0x9c, 0x01, 0xda, 0x5e, 0x00, 0xff]), any::<u8>()], 0..=6), any::<bool>())
                    .prop_map(|(bytes, v1)| {
                        if v1 {
                            Case::V1Text { s: hex::encode(&bytes) }
                        } else {
                            Case::Text { s: v2_string_from_compressed(&bytes) }
                        }
                    }),
                "[ \n\r\t]{0,6}".prop_map(|s| Case::V1Text { s }),
                ".{0,40}".prop_map(|s| Case::V1Text { s }),
                "[0-9a-fA-F]{0,200}".prop_map(|s| Case::V1Text { s }),
                "789c[0-9a-f]{0,120}".prop_map(|s| Case::V1Text { s }),
            ]
            .boxed(),
            "mutated" => (
                machine(&small_params()),
                0u8..3,
                byte_muts(4),
                proptest::option::weighted(0.25, any::<u16>()),
                proptest::option::weighted(0.1, "[0-9a-zA-Z é]{0,3}"),
            )
                .prop_map(|(base, layer, muts, truncate, version)| Case::Mutated { base, layer, muts, truncate, version })
                .boxed(),
            "mirror" => {
                let mp = MachineParams { max_states: 3, dist: DistProfile::Wild, p_trans: [0.3; 13], ..MachineParams::default() };
                (machine(&mp), proptest::collection::vec(crate::props::c12::mutation_strategy(), 1..=3))
                    .prop_map(|(base, mutations)| Case::Mirror { base, mutations })
                    .boxed()
            }
            "bomb" => (0u8..3, prop_oneof![3 => Just(256u32), 2 => select(vec![2u32, 3, 16, 64])]).prop_map(|(kind, mib)| Case::Bomb { kind, mib }).boxed(),
            "bomb_big" => (0u8..3, select(vec![512u32, 1024, 2048, 4096])).prop_map(|(kind, mib)| Case::Bomb { kind, mib }).boxed(),
            "v1" => (
                v1_machine(),
                byte_muts(3),
                proptest::option::weighted(0.15, any::<u16>()),
                prop_oneof![20 => Just(0u32), 1 => select(vec![1u32, 8, 64])],
            )
                .prop_map(|(machine, muts, truncate, bomb_mib)| Case::V1 { machine, muts, truncate, bomb_mib })
                .boxed(),
            _ => panic!("unknown profile"),
        }
    }

    fn check(case: &Case, obs: &mut Obs) -> Result<(), Failure> {
        match case {
            Case::RoundTrip { templates, states, fit, seed } => {
                let limit = MAX_DECOMPRESSED_SIZE as u64;
                let built = if *fit == 0 {
                    expand(templates, *states).build().ok()
                } else {
                    // as many template copies as fit below the target, then exact padding
                    let target = match fit {
                        1 => limit - 24,
                        2 => limit,
                        _ => limit + 16,
                    };
                    let t = templates.states.len().max(1) as u64;
                    let per_state = templates
                        .build()
                        .map(|m| bincode_len(&m))
                        .unwrap_or(64)
                        .div_ceil(t)
                        .max(16);
                    let mut n = (*states as u64).min(target / per_state).max(t);
                    let mut out = None;
                    for _ in 0..40 {
                        let mut spec = expand(templates, n as u32);
                        match spec.build() {
                            Ok(m) if bincode_len(&m) <= target => {
                                out = fit_to(&mut spec, target);
                                break;
                            }
                            Ok(_) => n = (n * 9 / 10).max(t),
                            Err(_) => break,
                        }
                        if n == t {
                            let mut spec = expand(templates, t as u32);
                            out = fit_to(&mut spec, target);
                            break;
                        }
                    }
                    out
                };
                let Some(m) = built else {
                    obs.hit("machine_not_buildable_or_too_large_to_pad");
                    return Ok(());
                };
                let len = bincode_len(&m);
                if len > limit {
                    // outside the property (the documented limit); only counted
                    obs.hit("over_the_size_limit");
                    let _ = len;
                    return Ok(());
                }
                if len == limit {
                    obs.hit("exactly_at_the_size_limit");
                } else if len + 64 > limit {
                    obs.hit("just_under_the_size_limit");
                }
                if m.states.len() >= 1000 {
                    obs.hit("thousands_of_states");
                }
                let s = m.serialize();
                if s.len() > 64 * 1024 {
                    obs.hit("compressed_form_above_64KiB");
                }
                if s.len() > (1 << 20) {
                    obs.hit("string_longer_than_1MiB");
                }
                let parsed = match judge_v2(&s, obs, "round trip")? {
                    Some(p) => p,
                    None => {
                        return fail(
                            "valid-machine-rejected-by-from_str",
                            format!("a valid machine with {} states and {len} bytes of bincode serialized to a string that from_str rejects: {:?}", m.states.len(), Machine::from_str(&s).err()),
                        )
                    }
                };
                let s2 = parsed.serialize();
                if s2 != s {
                    return fail("reserialized-string-differs", format!("{} states, {len} bytes", m.states.len()));
                }
                if parsed.name() != m.name() {
                    return fail("name-differs-after-round-trip", String::new());
                }
                if MachineSpec::from_machine(&parsed) != MachineSpec::from_machine(&m) {
                    return fail("machine-differs-after-round-trip", String::new());
                }
                if m.states.len() <= 64 && run_events(&m, *seed) != run_events(&parsed, *seed) {
                    return fail("parsed-machine-behaves-differently", String::new());
                }
                let has_dist = templates.states.iter().any(|s| s.action.map(|a| !a.dists().is_empty()).unwrap_or(false));
                if m.states.len() >= 2 && has_dist {
                    obs.nontrivial();
                }
                obs.hit("round_trip_ok");
                Ok(())
            }
            Case::Text { s } => {
                if !s.is_ascii() {
                    obs.hit("non_ascii_text");
                }
                if !s.is_empty() && s.trim().len() < 3 {
                    obs.hit("whitespace_only_or_nearly");
                }
                if let Some(c) = v2_compressed(s) {
                    if inflate(&c, 1 << 16).map(|b| !b.is_empty()).unwrap_or(false) {
                        obs.hit("reached_bincode");
                        obs.nontrivial();
                    }
                }
                judge_v2(s, obs, "text")?;
                Ok(())
            }
            Case::V1Text { s } => {
                match parse_v1_machine(s) {
                    Ok(m) => {
                        if let Err(e) = m.validate() {
                            return fail("parse_v1-returned-invalid-machine", e.to_string());
                        }
                        obs.hit("v1_accepted");
                    }
                    Err(_) => obs.hit("v1_rejected"),
                }
                Ok(())
            }
            Case::Mutated { base, layer, muts, truncate, version } => {
                let Ok(m) = base.build() else {
                    panic!("generator produced an invalid base machine");
                };
                let payload = bincode_of(&mmachine(base));
                debug_assert_eq!(payload, bincode::DefaultOptions::new().serialize(&m).unwrap());
                let mut s = match layer {
                    0 => {
                        let mut b = m.serialize().into_bytes();
                        apply_muts(&mut b, muts);
                        String::from_utf8_lossy(&b).into_owned()
                    }
                    1 => {
                        let mut z = zlib(&payload, 9);
                        apply_muts(&mut z, muts);
                        v2_string_from_compressed(&z)
                    }
                    _ => {
                        let mut p = payload.clone();
                        apply_muts(&mut p, muts);
                        v2_string(&p)
                    }
                };
                if let Some(t) = truncate {
                    let mut cut = pick(*t, s.len() + 1);
                    while !s.is_char_boundary(cut) {
                        cut -= 1;
                    }
                    s.truncate(cut);
                    obs.hit("truncated");
                }
                if let Some(v) = version {
                    if s.len() >= 2 && s.is_char_boundary(2) {
                        s = format!("{v}{}", &s[2..]);
                        obs.hit("version_prefix_replaced");
                    }
                }
                if let Some(c) = v2_compressed(&s) {
                    if inflate(&c, 1 << 21).map(|b| !b.is_empty()).unwrap_or(false) {
                        obs.hit("reached_bincode");
                        obs.nontrivial();
                    }
                }
                if let Some(parsed) = judge_v2(&s, obs, "mutated encoding")? {
                    // whatever was accepted must round-trip itself
                    let again = parsed.serialize();
                    match Machine::from_str(&again) {
                        Ok(p2) if p2.serialize() == again => {}
                        _ => return fail("accepted-mutant-does-not-round-trip", String::new()),
                    }
                    if !muts.is_empty() && MachineSpec::from_machine(&parsed) != MachineSpec::from_machine(&m) {
                        obs.hit("mutant_accepted_as_different_machine");
                    }
                }
                Ok(())
            }
            Case::Mirror { base, mutations } => {
                let spec = mutate(base, mutations);
                let payload = bincode_of(&mmachine(&spec));
                if payload.len() > (1 << 20) {
                    return Ok(());
                }
                obs.nontrivial();
                obs.hit("reached_bincode");
                judge_v2(&v2_string(&payload), obs, "mirror encoding")?;
                Ok(())
            }
            Case::Bomb { kind, mib } => {
                let total = (*mib as usize) << 20;
                let prefix: Vec<u8> = match kind {
                    1 => bincode_of(&mmachine(&MachineSpec {
                        allowed_padding_packets: 1,
                        max_padding_frac: Fx(0.0),
                        allowed_blocked_microsec: 1,
                        max_blocking_frac: Fx(0.0),
                        states: vec![StateSpec::default(); 3],
                    })),
                    _ => vec![],
                };
                let fill = if *kind == 2 { 0xffu8 } else { 0u8 };
                // stream the payload through the compressor without materialising it
                let compressed = {
                    use std::io::Write;
                    let mut e = flate2::write::ZlibEncoder::new(Vec::new(), flate2::Compression::new(6));
                    e.write_all(&prefix).unwrap();
                    let chunk = vec![fill; 1 << 20];
                    let mut left = total.saturating_sub(prefix.len());
                    while left > 0 {
                        let n = left.min(chunk.len());
                        e.write_all(&chunk[..n]).unwrap();
                        left -= n;
                    }
                    e.finish().unwrap()
                };
                let s = v2_string_from_compressed(&compressed);
                obs.nontrivial();
                obs.hit("bomb");
                if total >= 2 * memory_bound(s.len()) {
                    obs.hit("bomb_2x_above_bound");
                }
                judge_v2(&s, obs, &format!("{mib} MiB bomb kind {kind} ({} bytes of text)", s.len()))?;
                Ok(())
            }
            Case::V1 { machine, muts, truncate, bomb_mib } => {
                let mut payload = v1_bytes(machine);
                apply_muts(&mut payload, muts);
                if let Some(t) = truncate {
                    payload.truncate(pick(*t, payload.len() + 1));
                }
                if *bomb_mib > 0 {
                    payload.extend(std::iter::repeat(0u8).take((*bomb_mib as usize) << 20));
                    obs.hit("v1_bomb");
                }
                let s = hex::encode(zlib(&payload, 6));
                if payload.len() >= 2 + 35 && machine.version == 1 {
                    obs.nontrivial();
                }
                match parse_v1_machine(&s) {
                    Ok(m) => {
                        if let Err(e) = m.validate() {
                            return fail("parse_v1-returned-invalid-machine", e.to_string());
                        }
                        obs.hit("v1_accepted");
                        // an accepted legacy machine can be re-encoded in the current format and run
                        let s2 = m.serialize();
                        if Machine::from_str(&s2).map(|p| p.serialize() != s2).unwrap_or(true) {
                            return fail("v1-machine-does-not-round-trip-in-v2", String::new());
                        }
                        let _ = run_events(&m, 1);
                    }
                    Err(_) => obs.hit("v1_rejected"),
                }
                Ok(())
            }
        }
    }

    fn required_classes() -> Vec<&'static str> {
        vec![
            "round_trip_ok",
            "compressed_form_above_64KiB",
            "string_longer_than_1MiB",
            "thousands_of_states",
            "just_under_the_size_limit",
            "exactly_at_the_size_limit",
            "over_the_size_limit",
            "reached_bincode",
            "accepted",
            "rejected",
            "non_ascii_text",
            "whitespace_only_or_nearly",
            "truncated",
            "bomb",
            "bomb_2x_above_bound",
            "v1_accepted",
            "v1_rejected",
            "v1_bomb",
        ]
    }

    fn assumptions() -> Vec<&'static str> {
        vec![
            "memory bound for the current format: peak live heap during from_str <= 2 MiB + 3*ceil(size_of::<State>()/16) MiB + 3*len(input) (the fixed 1 MiB buffer plus the largest structure 1 MiB of bincode can expand to, times 3 for Vec growth); measured with a counting global allocator in a single-threaded worker",
            "machines whose bincode encoding exceeds 1 MiB are outside the property (Machine::serialize is documented to be limited); they are only counted",
            "no memory claim is made for the legacy v1 parser (the statement makes none); v1 bombs are kept <= 64 MiB",
        ]
    }

    fn sample(case: &Case) -> serde_json::Value {
        match case {
            Case::RoundTrip { templates, states, fit, .. } => {
                serde_json::json!({"kind": "round-trip", "template_states": templates.states.len(), "states": states, "fit": fit,
                    "template_serialized": templates.build().map(|m| m.serialize()).unwrap_or_default()})
            }
            other => {
                let v = serde_json::to_value(other).unwrap_or_default();
                let s = v.to_string();
                if s.len() > 2000 {
                    serde_json::json!({"truncated_case": s.chars().take(2000).collect::<String>()})
                } else {
                    v
                }
            }
        }
    }
}
