//! C20 — the C API returns exactly the framework's actions and never writes
//! past num_machines (differential: extern "C" functions vs the Rust API).

use std::ffi::CString;
use std::mem::MaybeUninit;
use std::str::FromStr;
use std::time::Instant;

use maybenot::{Framework, Machine, TriggerAction};
use maybenot_ffi::{
    maybenot_num_machines, maybenot_on_events, maybenot_start, maybenot_stop, MaybenotAction, MaybenotEvent,
    MaybenotEventType, MaybenotFramework, MaybenotTimer,
};
use proptest::prelude::*;
use proptest::sample::select;
use serde::{Deserialize, Serialize};

use crate::alloc_count::live;
use crate::gen::*;
use crate::rng::ScriptRng;
use crate::rt::*;
use crate::spec::*;

pub struct C20;

#[derive(Clone, Debug, Serialize, Deserialize)]
pub enum Case {
    /// valid start, then batches compared with the Rust framework
    Run { machines: Vec<MachineSpec>, padding_frac: Fx, batches: Vec<Vec<Ev>>, trailing_newline: bool },
    /// start arguments, valid or not
    Start { pieces: Vec<Piece>, sep: u8, trailing: bool, padding_frac: Fx, blocking_frac: Fx, raw_bytes: Option<Vec<u8>> },
    /// null pointers
    Null { which: u8, machines: Vec<MachineSpec> },
    /// the clock the C API reads itself: a blocking-fraction limit that is exceeded right after a
    /// block and clearly met again after an idle period (real sleeps, judged only with wide margins)
    Clock { framework_limit: bool, block_ms: u8, idle_ms: u8 },
}

#[derive(Clone, Debug, Serialize, Deserialize)]
pub enum Piece {
    Valid(MachineSpec),
    Text(String),
    Empty,
}

const GUARD: usize = 3;
const PATTERN: u8 = 0xA5;

fn ev_c(e: &Ev) -> MaybenotEvent {
    let (event_type, machine) = match *e {
        Ev::NormalRecv => (MaybenotEventType::NormalRecv, 0),
        Ev::PaddingRecv => (MaybenotEventType::PaddingRecv, 0),
        Ev::TunnelRecv => (MaybenotEventType::TunnelRecv, 0),
        Ev::NormalSent => (MaybenotEventType::NormalSent, 0),
        Ev::PaddingSent(m) => (MaybenotEventType::PaddingSent, m),
        Ev::TunnelSent => (MaybenotEventType::TunnelSent, 0),
        Ev::BlockingBegin(m) => (MaybenotEventType::BlockingBegin, m),
        Ev::BlockingEnd => (MaybenotEventType::BlockingEnd, 0),
        Ev::TimerBegin(m) => (MaybenotEventType::TimerBegin, m),
        Ev::TimerEnd(m) => (MaybenotEventType::TimerEnd, m),
    };
    MaybenotEvent { event_type, machine }
}

/// field-for-field rendering of both sides
#[derive(Debug, PartialEq, Eq, Clone)]
enum Flat {
    Cancel { machine: usize, timer: u32 },
    Pad { machine: usize, secs: u64, nanos: u32, replace: bool, bypass: bool },
    Block { machine: usize, t_secs: u64, t_nanos: u32, replace: bool, bypass: bool, d_secs: u64, d_nanos: u32 },
    Timer { machine: usize, secs: u64, nanos: u32, replace: bool },
}

fn flat_c(a: &MaybenotAction) -> Flat {
    match *a {
        MaybenotAction::Cancel { machine, timer } => Flat::Cancel {
            machine,
            timer: match timer {
                MaybenotTimer::Action => 0,
                MaybenotTimer::Internal => 1,
                MaybenotTimer::All => 2,
            },
        },
        MaybenotAction::SendPadding { machine, timeout, replace, bypass } => {
            Flat::Pad { machine, secs: timeout.secs, nanos: timeout.nanos, replace, bypass }
        }
        MaybenotAction::BlockOutgoing { machine, timeout, replace, bypass, duration } => Flat::Block {
            machine,
            t_secs: timeout.secs,
            t_nanos: timeout.nanos,
            replace,
            bypass,
            d_secs: duration.secs,
            d_nanos: duration.nanos,
        },
        MaybenotAction::UpdateTimer { machine, duration, replace } => {
            Flat::Timer { machine, secs: duration.secs, nanos: duration.nanos, replace }
        }
    }
}

fn flat_rust(a: &TriggerAction) -> Flat {
    match *a {
        TriggerAction::Cancel { machine, timer } => Flat::Cancel { machine: machine.into_raw(), timer: timer_idx(timer) as u32 },
        TriggerAction::SendPadding { timeout, bypass, replace, machine } => Flat::Pad {
            machine: machine.into_raw(),
            secs: timeout.as_secs(),
            nanos: timeout.subsec_nanos(),
            replace,
            bypass,
        },
        TriggerAction::BlockOutgoing { timeout, duration, bypass, replace, machine } => Flat::Block {
            machine: machine.into_raw(),
            t_secs: timeout.as_secs(),
            t_nanos: timeout.subsec_nanos(),
            replace,
            bypass,
            d_secs: duration.as_secs(),
            d_nanos: duration.subsec_nanos(),
        },
        TriggerAction::UpdateTimer { duration, replace, machine } => Flat::Timer {
            machine: machine.into_raw(),
            secs: duration.as_secs(),
            nanos: duration.subsec_nanos(),
            replace,
        },
    }
}

/// start through the C API; returns (result code, instance or null)
fn c_start(bytes_without_nul: &[u8], pf: f64, bf: f64) -> (u32, *mut MaybenotFramework) {
    let cs = CString::new(bytes_without_nul.to_vec()).expect("no interior NUL by construction");
    let mut out: MaybeUninit<*mut MaybenotFramework> = MaybeUninit::new(std::ptr::null_mut());
    let r = unsafe { maybenot_start(cs.as_ptr(), pf, bf, &mut out) };
    let code = r as u32;
    let p = if code == 0 { unsafe { out.assume_init() } } else { std::ptr::null_mut() };
    (code, p)
}

pub fn deterministic_params() -> MachineParams {
    let mut mp = MachineParams {
        max_states: 4,
        dist: DistProfile::Const,
        p_action: 0.85,
        p_limit: 0.4,
        p_counter: 0.4,
        prob_style: 1,
        w_end: 1,
        w_signal: 1,
        ..MachineParams::default()
    };
    mp.p_trans = [0.45; 13];
    mp
}

/// budgets whose decisions never depend on the wall clock the C API reads itself
pub fn clock_independent(mut m: MachineSpec) -> MachineSpec {
    m.max_blocking_frac = Fx(0.0);
    m
}

fn timeouts_fit(m: &MachineSpec) -> bool {
    let _ = m;
    true
}

impl Prop for C20 {
    type Case = Case;
    const ID: &'static str = "C20";
    const RULE: &'static str = "Run cases: 0..=6 machines with probability-1 transitions, constant distributions and clock-independent limits (blocking fractions 0) x 1..=30 batches of 0..=8 events (profile long_batch: 1..=4 batches of up to 1100 events) over the 10 event types with known and unknown machine ids x framework padding fraction; the C API's output buffer sits between canary regions and is pre-filled with a pattern. Start cases: newline-separated pieces (valid machines, arbitrary text, empty pieces), LF / CRLF separators, trailing newline, non-UTF-8 bytes, NaN and out-of-range fractions. Null cases: each of out / instance / events / actions / count null, also together with an empty batch. Clock cases (the C API reads the clock itself): a machine or framework blocking-fraction limit of 0.5, BlockingBegin, a real sleep of 20-40 ms, BlockingEnd, NormalSent (blocked share > 0.6: no action may be written), a real sleep of 120-200 ms, NormalSent (blocked share < 0.4: the BlockOutgoing must be written); a case is judged only when the measured bounds clear the limit by that margin. Non-trivial: a batch that produced >=1 written action with bypass != replace, or a start/null error-path case. Distinct = hash of the case.";

    fn profiles(tier: Tier) -> Vec<Profile> {
        match tier {
            Tier::Quick => vec![prof("run", 48_000), prof("start", 18_000), prof("null", 4_500), prof("clock", 64), prof("long_batch", 3_000)],
            Tier::Thorough => vec![prof("run", 700_000), prof("start", 250_000), prof("null", 50_000), prof("clock", 640), prof("long_batch", 40_000)],
        }
    }

    fn strategy(profile: &str) -> BoxedStrategy<Case> {
        let mp = deterministic_params();
        match profile {
            "run" => (0usize..=6)
                .prop_flat_map(move |n| {
                    let hp = HistParams { max_batch: 8, ..HistParams::default() };
                    (
                        proptest::collection::vec(machine(&mp).prop_map(clock_independent), n..=n),
                        prop_oneof![Just(0.0), select(vec![0.5, 1.0, 0.25])],
                        proptest::collection::vec(proptest::collection::vec(event(n, &hp), 0..=8), 1..=30),
                        any::<bool>(),
                        proptest::option::weighted(0.2, (any::<u8>(), any::<u8>())),
                    )
                })
                .prop_map(|(mut machines, pf, batches, trailing_newline, dup)| {
                    // the same machine listed twice (identical lines) is two machines
                    if let (Some((i, j)), true) = (dup, machines.len() >= 2) {
                        let n = machines.len();
                        machines[j as usize % n] = machines[i as usize % n].clone();
                    }
                    Case::Run { machines, padding_frac: Fx(pf), batches, trailing_newline }
                })
                .boxed(),
            "long_batch" => (1usize..=4)
                .prop_flat_map(move |n| {
                    // batches far longer than any internal chunk size a wrapper might use
                    let hp = HistParams { max_batch: 8, ..HistParams::default() };
                    (
                        proptest::collection::vec(machine(&mp).prop_map(clock_independent), n..=n),
                        prop_oneof![Just(0.0), select(vec![0.5, 1.0, 0.25])],
                        proptest::collection::vec(
                            prop_oneof![
                                3 => proptest::collection::vec(event(n, &hp), 60..=140),
                                2 => proptest::collection::vec(event(n, &hp), 250..=270),
                                1 => proptest::collection::vec(event(n, &hp), 500..=1100),
                                2 => proptest::collection::vec(event(n, &hp), 0..=3),
                            ],
                            1..=4,
                        ),
                    )
                })
                .prop_map(|(machines, pf, batches)| Case::Run { machines, padding_frac: Fx(pf), batches, trailing_newline: false })
                .boxed(),
            "start" => {
                let piece = prop_oneof![
                    6 => machine(&mp).prop_map(Piece::Valid),
                    1 => "[ -~]{0,40}".prop_map(Piece::Text),
                    1 => "\\PC{0,12}".prop_map(Piece::Text),
                    1 => (machine(&mp), "[^\\x00-\\x7f\n\r]{1,3}", any::<bool>()).prop_map(|(m, extra, front)| {
                        // a valid machine string with characters outside ASCII attached: valid UTF-8, invalid machine
                        let text = m.build().map(|m| m.serialize()).unwrap_or_default();
                        Piece::Text(if front { format!("{extra}{text}") } else { format!("{text}{extra}") })
                    }),
                    1 => "02eN[A-Za-z0-9+/]{0,40}={0,2}".prop_map(Piece::Text),
                    1 => Just(Piece::Empty),
                ];
                let frac = || prop_oneof![4 => select(vec![0.0, 0.5, 1.0]), 1 => select(vec![-0.0, f64::from_bits(1), 1.0000000000000002, -f64::from_bits(1)]), 1 => any_f64()];
                (
                    proptest::collection::vec(piece, 0..=4),
                    prop_oneof![6 => Just(0u8), 1 => Just(1u8)],
                    any::<bool>(),
                    frac(),
                    frac(),
                    proptest::option::weighted(0.08, proptest::collection::vec(1u8..=255, 0..40)),
                )
                    .prop_map(|(pieces, sep, trailing, pf, bf, raw_bytes)| Case::Start {
                        pieces,
                        sep,
                        trailing,
                        padding_frac: Fx(pf),
                        blocking_frac: Fx(bf),
                        raw_bytes,
                    })
                    .boxed()
            }
            "clock" => (any::<bool>(), 20u8..40, 120u8..200)
                .prop_map(|(framework_limit, block_ms, idle_ms)| Case::Clock { framework_limit, block_ms, idle_ms })
                .boxed(),
            "null" => (0u8..9, proptest::collection::vec(machine(&mp).prop_map(clock_independent), 0..=3))
                .prop_map(|(which, machines)| Case::Null { which, machines })
                .boxed(),
            _ => panic!("unknown profile"),
        }
    }

    fn check(case: &Case, obs: &mut Obs) -> Result<(), Failure> {
        // warm-up so that lazily initialised state (entropy source) does not count as a leak
        {
            let (code, p) = c_start(b"", 0.0, 0.0);
            if code == 0 {
                unsafe { maybenot_stop(p) };
            }
        }
        match case {
            Case::Run { machines, padding_frac, batches, trailing_newline } => {
                let built: Vec<Machine> = machines
                    .iter()
                    .map(|m| m.build().unwrap_or_else(|e| panic!("generator produced an invalid machine: {e}")))
                    .collect();
                let n = built.len();
                let mut text = built.iter().map(|m| m.serialize()).collect::<Vec<_>>().join("\n");
                let mut lines: Vec<String> = built.iter().map(|m| m.serialize()).collect();
                lines.sort();
                let repeated_line = lines.windows(2).any(|w| w[0] == w[1]);
                if *trailing_newline && n > 0 {
                    text.push('\n');
                }
                // class hits are buffered so that bookkeeping allocations do not look like a leak
                let mut hits: Vec<&'static str> = Vec::with_capacity(16_384);
                let before = live();
                let (code, inst) = c_start(text.as_bytes(), padding_frac.0, 0.0);
                if code != 0 {
                    return fail("start-rejects-what-the-rust-api-accepts", format!("maybenot_start returned {code} for {n} valid machines"));
                }
                let mut nt = false;
                let result = (|| -> Result<(), Failure> {
                    let nm = unsafe { maybenot_num_machines(inst) };
                    if nm != n {
                        return fail("num-machines-differs", format!("maybenot_num_machines = {nm}, expected {n}"));
                    }
                    let mut reference = Framework::new(built.clone(), padding_frac.0, 0.0, Instant::now(), ScriptRng::new(&[], 99))
                        .map_err(|e| Failure { signature: "rust-api-rejects".into(), detail: e.to_string() })?;
                    let size = std::mem::size_of::<MaybenotAction>();
                    for (bi, batch) in batches.iter().enumerate() {
                        let mut evs: Vec<MaybenotEvent> = batch.iter().map(ev_c).collect();
                        if bi % 2 == 1 {
                            // the `machine` member of an event that names no machine is unused: whatever a
                            // C caller left in it must not matter
                            for (e, src) in evs.iter_mut().zip(batch.iter()) {
                                if src.machine().is_none() {
                                    e.machine = if bi % 4 == 1 { usize::MAX } else { n + 1 };
                                }
                            }
                            hits.push("garbage_in_unused_machine_member");
                        }
                        // output buffer between canaries, pre-filled with a pattern
                        let total = n + 2 * GUARD;
                        let mut buf: Vec<MaybeUninit<MaybenotAction>> = Vec::with_capacity(total);
                        unsafe {
                            buf.set_len(total);
                            std::ptr::write_bytes(buf.as_mut_ptr() as *mut u8, PATTERN, total * size);
                        }
                        if bi % 4 == 2 && !evs.is_empty() {
                            // a rejected call must not have consumed its events: the same batch offered with a
                            // null count / null action pointer first, then normally (compared with the Rust
                            // framework, which never saw the rejected calls)
                            let mut c0: usize = 4242;
                            let r1 = unsafe { maybenot_on_events(inst, evs.as_ptr(), evs.len(), buf.as_mut_ptr().add(GUARD), std::ptr::null_mut()) };
                            let r2 = unsafe { maybenot_on_events(inst, evs.as_ptr(), evs.len(), std::ptr::null_mut(), &mut c0) };
                            if r1 as u32 != 4 || r2 as u32 != 4 || c0 != 4242 {
                                return fail("null-pointer-not-reported", format!("batch {bi}: results {} {} count {c0}", r1 as u32, r2 as u32));
                            }
                            unsafe { std::ptr::write_bytes(buf.as_mut_ptr() as *mut u8, PATTERN, total * size) };
                            hits.push("rejected_call_in_the_middle_of_a_run");
                        }
                        let mut count: usize = usize::MAX - 7;
                        let evp = if evs.is_empty() { std::ptr::NonNull::<MaybenotEvent>::dangling().as_ptr() as *const _ } else { evs.as_ptr() };
                        let r = unsafe {
                            maybenot_on_events(inst, evp, evs.len(), buf.as_mut_ptr().add(GUARD), &mut count)
                        };
                        if r as u32 != 0 {
                            return fail("on-events-error", format!("batch {bi}: result {}", r as u32));
                        }
                        let want: Vec<Flat> = {
                            let tevs: Vec<_> = batch.iter().map(|e| e.to_trigger()).collect();
                            reference.trigger_events(&tevs, Instant::now()).map(flat_rust).collect()
                        };
                        if count > n {
                            return fail("count-exceeds-num-machines", format!("batch {bi}: count {count} > {n}"));
                        }
                        let bytes = unsafe { std::slice::from_raw_parts(buf.as_ptr() as *const u8, total * size) };
                        let untouched = |from: usize, to: usize| bytes[from * size..to * size].iter().all(|b| *b == PATTERN);
                        if !untouched(0, GUARD) || !untouched(GUARD + n, total) {
                            return fail("wrote-outside-the-action-buffer", format!("batch {bi}"));
                        }
                        if count <= n && !untouched(GUARD + count, GUARD + n) {
                            return fail("wrote-entries-beyond-the-reported-count", format!("batch {bi}: count {count}"));
                        }
                        let got: Vec<Flat> = (0..count.min(n))
                            .map(|i| flat_c(unsafe { buf[GUARD + i].assume_init_ref() }))
                            .collect();
                        if got != want {
                            let sig = if got.len() != want.len() {
                                "action-count-differs"
                            } else {
                                "action-fields-differ"
                            };
                            return fail(sig, format!("batch {bi} {batch:?}: C API wrote {got:?}, the Rust framework returns {want:?}"));
                        }
                        for g in &got {
                            match g {
                                Flat::Pad { replace, bypass, .. } | Flat::Block { replace, bypass, .. } if replace != bypass => {
                                    nt = true;
                                    hits.push("asymmetric_flags_written");
                                }
                                Flat::Block { t_nanos, d_nanos, t_secs, d_secs, .. } => {
                                    if *t_nanos != 0 || *d_nanos != 0 {
                                        hits.push("subsecond_duration");
                                    }
                                    if *t_secs != 0 || *d_secs != 0 {
                                        hits.push("whole_seconds");
                                    }
                                }
                                Flat::Pad { nanos, secs, .. } | Flat::Timer { nanos, secs, .. } => {
                                    if *nanos != 0 {
                                        hits.push("subsecond_duration");
                                    }
                                    if *secs != 0 {
                                        hits.push("whole_seconds");
                                    }
                                }
                                _ => {}
                            }
                        }
                        if got.len() >= 2 {
                            hits.push("two_or_more_actions");
                        }
                        if batch.len() > 256 && !got.is_empty() {
                            hits.push("action_from_a_batch_longer_than_256");
                        }
                        if got.iter().any(|g| matches!(g, Flat::Cancel { .. })) {
                            hits.push("cancel_written");
                        }
                    }
                    Ok(())
                })();
                unsafe { maybenot_stop(inst) };
                result?;
                let _ = before;
                // leak oracle: two further identical, quiet cycles must not grow the live heap
                let mut marks = [0isize; 4];
                for mark in marks.iter_mut() {
                    let (code, inst) = c_start(text.as_bytes(), padding_frac.0, 0.0);
                    if code != 0 {
                        return fail("start-rejects-what-the-rust-api-accepts", format!("second start returned {code}"));
                    }
                    let mut buf: Vec<MaybeUninit<MaybenotAction>> = Vec::with_capacity(n + 1);
                    unsafe { buf.set_len(n + 1) };
                    for batch in batches.iter() {
                        let evs: Vec<MaybenotEvent> = batch.iter().map(ev_c).collect();
                        if evs.is_empty() {
                            continue;
                        }
                        let mut count = 0usize;
                        unsafe { maybenot_on_events(inst, evs.as_ptr(), evs.len(), buf.as_mut_ptr(), &mut count) };
                    }
                    drop(buf);
                    unsafe { maybenot_stop(inst) };
                    *mark = live();
                }
                if marks.windows(2).all(|w| w[1] > w[0]) {
                    return fail(
                        "start-stop-leaks",
                        format!("live heap grows with every identical start/on_events/stop cycle: {marks:?} bytes"),
                    );
                }
                if marks.windows(2).any(|w| w[1] != w[0]) {
                    hits.push("live_heap_not_constant_across_cycles");
                }
                for h in hits {
                    obs.hit(h);
                }
                if nt {
                    obs.nontrivial();
                }
                if n == 0 {
                    obs.hit("zero_machines");
                }
                if repeated_line {
                    obs.hit("same_machine_listed_twice");
                }
                Ok(())
            }
            Case::Start { pieces, sep, trailing, padding_frac, blocking_frac, raw_bytes } => {
                obs.nontrivial();
                let sepstr = if *sep == 1 { "\r\n" } else { "\n" };
                let texts: Vec<String> = pieces
                    .iter()
                    .map(|p| match p {
                        Piece::Valid(m) => m.build().map(|m| m.serialize()).unwrap_or_default(),
                        Piece::Text(t) => t.clone(),
                        Piece::Empty => String::new(),
                    })
                    .collect();
                let mut s = texts.join(sepstr);
                if *trailing && !texts.is_empty() {
                    s.push_str(sepstr);
                }
                let mut bytes = s.clone().into_bytes();
                let mut utf8 = true;
                if let Some(raw) = raw_bytes {
                    bytes.extend_from_slice(raw);
                    utf8 = std::str::from_utf8(&bytes).is_ok();
                }
                let mut hits: Vec<&'static str> = Vec::with_capacity(64);
                let before = live();
                let (code, inst) = c_start(&bytes, padding_frac.0, blocking_frac.0);
                let mut num = 0;
                if code == 0 {
                    num = unsafe { maybenot_num_machines(inst) };
                    unsafe { maybenot_stop(inst) };
                }
                let after = live();
                let has_cr = bytes.contains(&b'\r');
                // what the Rust API says
                let mut expected_machines = 0usize;
                let expected: Vec<u32> = if !utf8 {
                    hits.push("not_utf8");
                    vec![1]
                } else {
                    let text = std::str::from_utf8(&bytes).unwrap();
                    let mut ps: Vec<&str> = text.split('\n').collect();
                    if ps.last() == Some(&"") {
                        ps.pop();
                    }
                    let parsed: Result<Vec<Machine>, _> = ps.iter().map(|p| Machine::from_str(p)).collect();
                    let frac_ok = |f: f64| !f.is_nan() && (0.0..=1.0).contains(&f);
                    let mut codes = vec![];
                    match parsed {
                        Err(_) => {
                            hits.push("invalid_machine_string");
                            codes.push(2)
                        }
                        Ok(ms) => {
                            expected_machines = ms.len();
                            let ok = Framework::new(ms, padding_frac.0, blocking_frac.0, Instant::now(), ScriptRng::new(&[], 1)).is_ok();
                            if ok != (frac_ok(padding_frac.0) && frac_ok(blocking_frac.0)) {
                                panic!("reference Framework::new disagrees with the fraction rule");
                            }
                            if ok {
                                hits.push("valid_start");
                                codes.push(0)
                            } else {
                                hits.push("invalid_fraction");
                                codes.push(3)
                            }
                        }
                    }
                    codes
                };
                if has_cr && utf8 {
                    // the header promises LF separation only: CR must not crash, nothing more is required
                    hits.push("carriage_return_only_required_not_to_crash");
                } else {
                    if !expected.contains(&code) {
                        return fail(
                            "start-result-differs-from-rust-api",
                            format!("maybenot_start returned {code}, the Rust API implies {expected:?} for {:?} with fractions ({}, {})", String::from_utf8_lossy(&bytes), padding_frac.0, blocking_frac.0),
                        );
                    }
                    if code == 0 {
                        let want = expected_machines;
                        if num != want {
                            return fail("num-machines-differs", format!("{num} vs {want}"));
                        }
                    }
                }
                let _ = (before, after);
                let mut marks = [0isize; 4];
                for mark in marks.iter_mut() {
                    let (code2, inst2) = c_start(&bytes, padding_frac.0, blocking_frac.0);
                    if code2 == 0 {
                        unsafe { maybenot_stop(inst2) };
                    }
                    *mark = live();
                }
                if marks.windows(2).all(|w| w[1] > w[0]) {
                    return fail(
                        "start-stop-leaks",
                        format!("start returned {code}: live heap grows with every identical start(/stop) cycle: {marks:?} bytes"),
                    );
                }
                if marks.windows(2).any(|w| w[1] != w[0]) {
                    hits.push("live_heap_not_constant_across_cycles");
                }
                for h in hits {
                    obs.hit(h);
                }
                Ok(())
            }
            Case::Clock { framework_limit, block_ms, idle_ms } => {
                use maybenot::action::Action;
                use maybenot::dist::{Dist, DistType};
                use maybenot::event::Event;
                use maybenot::state::{State, Trans};
                use std::time::Duration;
                // state 0 --NormalSent--> state 1 (BlockOutgoing, 1 ms, no replace) --NormalSent--> state 1
                let mut t0: enum_map::EnumMap<Event, Vec<Trans>> = Default::default();
                t0[Event::NormalSent] = vec![Trans(1, 1.0)];
                let s0 = State::new(t0);
                let mut t1: enum_map::EnumMap<Event, Vec<Trans>> = Default::default();
                t1[Event::NormalSent] = vec![Trans(1, 1.0)];
                let mut s1 = State::new(t1);
                let konst = |v: f64| Dist { dist: DistType::Uniform { low: v, high: v }, start: 0.0, max: 0.0 };
                s1.action = Some(Action::BlockOutgoing { bypass: false, replace: false, timeout: konst(0.0), duration: konst(1000.0), limit: None });
                let (mfrac, ffrac) = if *framework_limit { (0.0, 0.5) } else { (0.5, 0.0) };
                let m = Machine::new(0, 0.0, 0, mfrac, vec![s0, s1]).unwrap_or_else(|e| panic!("clock machine invalid: {e}"));
                let text = m.serialize();
                let secs = |d: Duration| d.as_secs_f64();
                let before_start = Instant::now();
                let (code, inst) = c_start(text.as_bytes(), 0.0, ffrac);
                if code != 0 {
                    return fail("start-rejects-what-the-rust-api-accepts", format!("clock machine: {code}"));
                }
                let after_start = Instant::now();
                let call = |e: Ev| -> (u32, usize) {
                    let evs = [ev_c(&e)];
                    let mut buf: [MaybeUninit<MaybenotAction>; 2] = [MaybeUninit::uninit(), MaybeUninit::uninit()];
                    let mut count = usize::MAX;
                    let r = unsafe { maybenot_on_events(inst, evs.as_ptr(), 1, buf.as_mut_ptr(), &mut count) };
                    (r as u32, count)
                };
                let before1 = Instant::now();
                let r1 = call(Ev::BlockingBegin(7));
                let after1 = Instant::now();
                std::thread::sleep(Duration::from_millis(*block_ms as u64));
                let before3 = Instant::now();
                let r3 = call(Ev::BlockingEnd);
                let after3 = Instant::now();
                let r4 = call(Ev::NormalSent);
                let after4 = Instant::now();
                std::thread::sleep(Duration::from_millis(*idle_ms as u64));
                let before6 = Instant::now();
                let r6 = call(Ev::NormalSent);
                unsafe { maybenot_stop(inst) };
                for (i, r) in [r1, r3, r4, r6].iter().enumerate() {
                    if r.0 != 0 || r.1 > 1 {
                        return fail("on-events-error", format!("clock case, call {i}: result {} count {}", r.0, r.1));
                    }
                }
                // right after the block: blocked share at least this much
                let share_low = secs(before3 - after1) / secs(after4 - before_start);
                // after the idle period: blocked share at most this much
                let share_high = secs(after3 - before1) / secs(before6 - after_start);
                if share_low > 0.6 {
                    obs.hit("clock_judged_over_limit");
                    if r4.1 != 0 {
                        return fail(
                            "blocking-action-although-the-blocked-share-exceeds-the-limit",
                            format!("blocked share of the time since start >= {share_low:.3} with limit 0.5 ({}): the C API returned {} action(s)", if *framework_limit { "framework" } else { "machine" }, r4.1),
                        );
                    }
                }
                if share_high < 0.4 {
                    obs.hit("clock_judged_under_limit");
                    obs.nontrivial();
                    if r6.1 != 1 {
                        return fail(
                            "no-blocking-action-although-the-blocked-share-is-below-the-limit",
                            format!("blocked share of the time since start <= {share_high:.3} with limit 0.5 ({}): the C API returned {} action(s); the Rust framework returns BlockOutgoing for this history and clock", if *framework_limit { "framework" } else { "machine" }, r6.1),
                        );
                    }
                } else {
                    obs.hit("clock_case_not_judged_timing_too_loose");
                }
                Ok(())
            }
            Case::Null { which, machines } => {
                obs.nontrivial();
                obs.hit("null_pointer_case");
                let built: Vec<Machine> = machines.iter().map(|m| m.build().expect("valid")).collect();
                let text = built.iter().map(|m| m.serialize()).collect::<Vec<_>>().join("\n");
                let cs = CString::new(text).unwrap();
                let before = live();
                if *which == 0 {
                    let r = unsafe { maybenot_start(cs.as_ptr(), 0.0, 0.0, std::ptr::null_mut()) };
                    if r as u32 != 4 {
                        return fail("null-out-not-reported", format!("maybenot_start(out = NULL) returned {}", r as u32));
                    }
                } else {
                    let (code, inst) = c_start(cs.as_bytes(), 0.0, 0.0);
                    if code != 0 {
                        return fail("start-rejects-what-the-rust-api-accepts", format!("{code}"));
                    }
                    let n = built.len();
                    let evs = [ev_c(&Ev::NormalSent)];
                    let mut buf: Vec<MaybeUninit<MaybenotAction>> = Vec::with_capacity(n + 1);
                    unsafe { buf.set_len(n + 1) };
                    let mut count: usize = 12345;
                    let null_inst: *mut MaybenotFramework = std::ptr::null_mut();
                    let r = unsafe {
                        match which {
                            1 => maybenot_on_events(null_inst, evs.as_ptr(), 1, buf.as_mut_ptr(), &mut count),
                            2 => maybenot_on_events(inst, std::ptr::null(), 1, buf.as_mut_ptr(), &mut count),
                            3 => maybenot_on_events(inst, evs.as_ptr(), 1, std::ptr::null_mut(), &mut count),
                            4 => maybenot_on_events(inst, evs.as_ptr(), 1, buf.as_mut_ptr(), std::ptr::null_mut()),
                            // null pointers together with an empty batch are still null pointers
                            6 => maybenot_on_events(inst, std::ptr::null(), 0, buf.as_mut_ptr(), &mut count),
                            7 => maybenot_on_events(inst, evs.as_ptr(), 0, std::ptr::null_mut(), &mut count),
                            8 => maybenot_on_events(inst, evs.as_ptr(), 0, buf.as_mut_ptr(), std::ptr::null_mut()),
                            _ => {
                                let nm = maybenot_num_machines(null_inst);
                                if nm != 0 {
                                    maybenot_stop(inst);
                                    return fail("num-machines-of-null", format!("{nm}"));
                                }
                                maybenot_on_events(null_inst, std::ptr::null(), 0, std::ptr::null_mut(), std::ptr::null_mut())
                            }
                        }
                    };
                    unsafe { maybenot_stop(inst) };
                    if r as u32 != 4 {
                        return fail("null-pointer-not-reported", format!("case {which}: result {}", r as u32));
                    }
                    if count != 12345 {
                        return fail("count-written-on-error", format!("{count}"));
                    }
                }
                drop(cs);
                let _ = timeouts_fit;
                let after = live();
                if after + 0 != before && *which != 0 {
                    // the CString was allocated before `before` was read and dropped above
                }
                Ok(())
            }
        }
    }

    fn required_classes() -> Vec<&'static str> {
        vec![
            "asymmetric_flags_written",
            "rejected_call_in_the_middle_of_a_run",
            "garbage_in_unused_machine_member",
            "same_machine_listed_twice",
            "action_from_a_batch_longer_than_256",
            "two_or_more_actions",
            "cancel_written",
            "subsecond_duration",
            "whole_seconds",
            "zero_machines",
            "valid_start",
            "invalid_machine_string",
            "invalid_fraction",
            "not_utf8",
            "null_pointer_case",
        ]
    }

    fn assumptions() -> Vec<&'static str> {
        vec![
            "the C API owns its clock and its OS-seeded RNG: machines have probability-1 transitions, constant distributions and blocking fractions 0, so the actions are a function of the events alone",
            "the extern \"C\" functions are called through the rlib (same symbols a C caller links)",
            "strings containing a carriage return are only required not to crash (the header promises LF separation)",
            "with several faults in one start call any of the applicable error codes is accepted",
            "leak oracle: after the judged cycle, four further identical start/on_events/stop cycles are run; a leak is reported when the live heap of the case-running thread (counting allocator) grows with every cycle (a one-off difference is only counted, class live_heap_not_constant_across_cycles)",
        ]
    }

    fn sample(case: &Case) -> serde_json::Value {
        match case {
            Case::Run { machines, padding_frac, batches, .. } => serde_json::json!({
                "kind": "run",
                "machines": machines.iter().filter_map(|m| m.build().ok().map(|m| m.serialize())).collect::<Vec<_>>(),
                "padding_frac": padding_frac.0,
                "batches": batches.iter().take(10).map(|b| format!("{b:?}")).collect::<Vec<_>>(),
            }),
            other => serde_json::to_value(other).unwrap_or_default(),
        }
    }
}
