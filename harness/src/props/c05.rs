//! C05 — actions are a deterministic function of the inputs and match the
//! documented operational semantics (reference model in model.rs).

use std::cell::RefCell;
use std::collections::VecDeque;
use std::rc::Rc;

use maybenot::verif::VerifSignal;
use maybenot::{Framework, Machine};
use proptest::prelude::*;
use rand_core::RngCore;
use serde::{Deserialize, Serialize};

use crate::fw::*;
use crate::gen::*;
use crate::model::*;
use crate::rng::ScriptRng;
use crate::rt::*;
use crate::spec::*;
use crate::vtime::VInstant;

pub struct C05;

/// Random source of the real framework in lock-step runs: hands out exactly
/// the entries the model consumed for the same call.
#[derive(Clone, Debug, Default)]
pub struct Tape(pub Rc<RefCell<TapeState>>);

#[derive(Debug, Default)]
pub struct TapeState {
    pub q: VecDeque<u64>,
    pub underrun: u64,
}

impl RngCore for Tape {
    fn next_u32(&mut self) -> u32 {
        (self.next_u64() >> 32) as u32
    }
    fn next_u64(&mut self) -> u64 {
        let mut s = self.0.borrow_mut();
        match s.q.pop_front() {
            Some(w) => w,
            None => {
                // the framework draws more than the reference semantics: remember, keep going
                s.underrun += 1;
                0x8000_0000_0000_0000
            }
        }
    }
    fn fill_bytes(&mut self, dest: &mut [u8]) {
        for chunk in dest.chunks_mut(8) {
            let w = self.next_u64().to_le_bytes();
            chunk.copy_from_slice(&w[..chunk.len()]);
        }
    }
    fn try_fill_bytes(&mut self, dest: &mut [u8]) -> Result<(), rand_core::Error> {
        self.fill_bytes(dest);
        Ok(())
    }
}

type LFw = Framework<Vec<Machine>, Tape, VInstant>;

fn lsnap(fw: &LFw) -> Snap {
    let s = fw.verif_snapshot();
    Snap {
        machines: s
            .machines
            .iter()
            .map(|m| MSnap {
                state: m.current_state,
                limit: m.state_limit,
                padding_sent: m.padding_sent,
                normal_sent: m.normal_sent,
                blocking_us: m.blocking_duration.0,
                ca: m.counter_a,
                cb: m.counter_b,
            })
            .collect(),
        normal: s.normal_sent_packets,
        padding: s.padding_sent_packets,
        blocking_us: s.blocking_duration.0,
        blocking_started: s.blocking_started.0,
        blocking_active: s.blocking_active,
        signal_pending: s.signal_pending,
    }
}

/// Compare the framework's state with the model's after a call.
fn compare_state(fw: &LFw, model: &Model, ctx: &str) -> Result<(), Failure> {
    let s = lsnap(fw);
    for (i, (a, b)) in s.machines.iter().zip(model.m.iter()).enumerate() {
        let same = a.state == b.state
            && a.limit == b.limit
            && a.padding_sent == b.padding_sent
            && a.normal_sent == b.normal_sent
            && a.blocking_us == b.blocked_us
            && a.ca == b.ca
            && a.cb == b.cb;
        if !same {
            let what = if a.state != b.state {
                "state"
            } else if a.limit != b.limit {
                "remaining-limit"
            } else if a.ca != b.ca || a.cb != b.cb {
                "counters"
            } else {
                "accounting"
            };
            return fail(
                format!("state-differs-from-reference-semantics ({what})"),
                format!("{ctx}: machine {i}: framework {a:?}, reference {b:?}"),
            );
        }
    }
    if s.normal != model.normal
        || s.padding != model.padding
        || s.blocking_us != model.blocked_us
        || s.blocking_active != model.blocking_active
        || (s.blocking_active && s.blocking_started != model.blocking_started)
    {
        return fail(
            "state-differs-from-reference-semantics (framework accounting)",
            format!("{ctx}: framework {s:?} vs reference normal {} padding {} blocked {} active {} started {}", model.normal, model.padding, model.blocked_us, model.blocking_active, model.blocking_started),
        );
    }
    if s.signal_pending != VerifSignal::None {
        return fail("signal-pending-after-call", format!("{ctx}: {:?}", s.signal_pending));
    }
    Ok(())
}

struct Lock {
    fw: LFw,
    tape: Tape,
    model: Model,
}

impl Lock {
    fn new(case: &FwCase, machines: Vec<Machine>) -> Result<Lock, Failure> {
        let model = Model::new(case);
        let tape = Tape::default();
        tape.0.borrow_mut().q.extend(model.drawn.iter().copied());
        let fw = Framework::new(machines, case.max_padding_frac.0, case.max_blocking_frac.0, VInstant(case.start), tape.clone())
            .map_err(|e| Failure { signature: "framework-new-rejects-validated-machines".into(), detail: e.to_string() })?;
        let l = Lock { fw, tape, model };
        l.tape_balanced("construction")?;
        compare_state(&l.fw, &l.model, "after construction")?;
        Ok(l)
    }

    fn tape_balanced(&self, ctx: &str) -> Result<(), Failure> {
        let mut t = self.tape.0.borrow_mut();
        let (left, under) = (t.q.len(), t.underrun);
        t.q.clear();
        t.underrun = 0;
        if left != 0 || under != 0 {
            return fail(
                "random-draws-differ-from-reference-semantics",
                format!("{ctx}: the framework left {left} of the reference's draws unused and made {under} draws the reference does not make"),
            );
        }
        Ok(())
    }

    /// Lock-step runs never interleave and the tape is empty between calls, so all
    /// forks can share one tape cell.
    fn fork(&self) -> Lock {
        Lock { fw: self.fw.clone(), tape: self.tape.clone(), model: self.model.clone() }
    }

    /// one call in lock-step; returns the actions
    fn step(&mut self, call: &Call, ch: &mut dyn Chooser, ctx: &str) -> Result<Vec<Act>, Failure> {
        let now = call.clock.apply(self.model.now);
        let want = self.model.call(&call.events, now, ch);
        self.tape.0.borrow_mut().q.extend(self.model.drawn.iter().copied());
        let evs: Vec<_> = call.events.iter().map(|e| e.to_trigger()).collect();
        let got: Vec<Act> = self.fw.trigger_events(&evs, VInstant(now)).map(conv_action).collect();
        if got != want {
            let sig = if got.len() != want.len() {
                "actions-differ-from-reference-semantics (which machines act)"
            } else if got.iter().zip(want.iter()).all(|(a, b)| std::mem::discriminant(a) == std::mem::discriminant(b) && a.machine() == b.machine()) {
                "actions-differ-from-reference-semantics (values or flags)"
            } else {
                "actions-differ-from-reference-semantics (kind)"
            };
            return fail(sig, format!("{ctx}: events {:?} at {now}: framework returned {got:?}, reference semantics prescribe {want:?}", call.events));
        }
        self.tape_balanced(ctx)?;
        compare_state(&self.fw, &self.model, ctx)?;
        Ok(got)
    }
}

#[derive(Clone, Debug, Serialize, Deserialize)]
pub enum Case {
    /// bounded-exhaustive: all histories up to `depth` and every draw outcome for this family
    Exhaustive { machines: Vec<MachineSpec>, depth: u8, fracs: (Fx, Fx) },
    /// bounded state-graph exploration: breadth-first over the reachable runtime states (deduplicated
    /// on machine states, remaining limits, counters and the blocking flag), every symbol of the
    /// alphabet and every draw outcome on each edge; budgets unlimited, clock standing still
    Graph { machines: Vec<MachineSpec>, max_nodes: u32, max_depth: u8 },
    /// random lock-step
    Random(FwCase),
    /// twin instances and a clone fed identically (everything, incl. all distribution families)
    Twin { case: FwCase, clone_at: u16 },
}

fn family(n_machines: std::ops::RangeInclusive<usize>) -> BoxedStrategy<Vec<MachineSpec>> {
    let mut mp = MachineParams {
        max_states: 3,
        dist: DistProfile::Const,
        p_action: 0.8,
        p_limit: 0.5,
        p_counter: 0.4,
        prob_style: 2,
        w_end: 1,
        w_signal: 2,
        ..MachineParams::default()
    };
    mp.p_trans = [0.3; 13];
    mp.p_trans[8] = 0.4;
    mp.p_trans[9] = 0.5;
    mp.p_trans[12] = 0.4;
    proptest::collection::vec(machine(&mp), n_machines).boxed()
}

fn family_unlimited(n_machines: std::ops::RangeInclusive<usize>) -> BoxedStrategy<Vec<MachineSpec>> {
    let mut mp = MachineParams {
        max_states: 3,
        dist: DistProfile::Const,
        p_action: 0.8,
        p_limit: 0.6,
        p_counter: 0.5,
        prob_style: 2,
        w_end: 1,
        w_signal: 2,
        budgets: BudgetProfile::Unlimited,
        ..MachineParams::default()
    };
    mp.p_trans = [0.3; 13];
    mp.p_trans[8] = 0.5;
    mp.p_trans[9] = 0.6;
    mp.p_trans[12] = 0.4;
    proptest::collection::vec(machine(&mp), n_machines).boxed()
}

/// the alphabet of one call for a family of n machines
fn alphabet(n: usize, specs: &[MachineSpec]) -> Vec<Vec<Ev>> {
    let mut singles: Vec<Ev> = vec![Ev::NormalRecv, Ev::PaddingRecv, Ev::TunnelRecv, Ev::NormalSent, Ev::TunnelSent, Ev::BlockingEnd];
    for m in 0..=n {
        singles.push(Ev::PaddingSent(m));
        singles.push(Ev::BlockingBegin(m));
        singles.push(Ev::TimerBegin(m));
        singles.push(Ev::TimerEnd(m));
    }
    let mut out: Vec<Vec<Ev>> = singles.iter().map(|e| vec![*e]).collect();
    out.push(vec![]);
    // 2-event batches over the events some state reacts to (ids of existing machines)
    let relevant: Vec<Ev> = singles
        .iter()
        .filter(|e| e.machine().map(|m| m < n).unwrap_or(true))
        .filter(|e| specs.iter().any(|s| s.states.iter().any(|st| st.trans_for(e.event()).is_some())))
        .copied()
        .collect();
    let mut pairs = 0;
    'outer: for a in &relevant {
        for b in &relevant {
            out.push(vec![*a, *b]);
            pairs += 1;
            if pairs >= 36 {
                break 'outer;
            }
        }
    }
    out
}

const CLOCKS: [Clock; 4] = [Clock::Add(0), Clock::Add(1), Clock::Add(1_000_000), Clock::Sub(1)];

struct Dfs<'a> {
    alphabet: &'a [Vec<Ev>],
    executions: u64,
    max_outcomes: usize,
    budget: u64,
}

impl Dfs<'_> {
    fn explore(&mut self, node: &Lock, depth: u8, path: &mut Vec<String>) -> Result<(), Failure> {
        if depth == 0 {
            return Ok(());
        }
        for (si, events) in self.alphabet.iter().enumerate() {
            // clock steps matter only when blocking accounting is in play; always vary at the last level
            let clocks: &[Clock] = if events.len() <= 1 { &CLOCKS } else { &CLOCKS[1..2] };
            for clock in clocks {
                let call = Call { clock: *clock, events: events.clone() };
                // enumerate every outcome of every draw of this call by re-execution
                let mut choices: Vec<usize> = vec![];
                loop {
                    if self.executions >= self.budget {
                        return Ok(());
                    }
                    let mut child = node.fork();
                    let mut ch = Scripted::new(choices.clone());
                    path.push(format!("{clock:?} {events:?} outcomes {choices:?}"));
                    let ctx = path.join(" | ");
                    let r = child.step(&call, &mut ch, &ctx);
                    self.executions += 1;
                    if self.executions % 4096 == 0 {
                        crate::rt::tick();
                    }
                    if let Err(e) = r {
                        path.pop();
                        return Err(e);
                    }
                    self.max_outcomes = self.max_outcomes.max(ch.arity.iter().copied().max().unwrap_or(0));
                    self.explore(&child, depth - 1, path)?;
                    path.pop();
                    // next choice vector (odometer over the arities seen in this execution)
                    let mut next: Vec<usize> = (0..ch.arity.len()).map(|i| choices.get(i).copied().unwrap_or(0)).collect();
                    let mut i = next.len();
                    loop {
                        if i == 0 {
                            next.clear();
                            break;
                        }
                        i -= 1;
                        if next[i] + 1 < ch.arity[i] {
                            next[i] += 1;
                            next.truncate(i + 1);
                            break;
                        }
                    }
                    if next.is_empty() {
                        break;
                    }
                    choices = next;
                }
                let _ = si;
            }
        }
        Ok(())
    }
}

impl Prop for C05 {
    type Case = Case;
    fn admissible(case: &Case) -> bool {
        match case {
            Case::Random(fc) => crate::props::fw_admissible(fc),
            Case::Twin { case, .. } => crate::props::fw_admissible(case),
            Case::Graph { .. } => false,
            Case::Exhaustive { machines, depth, fracs } => {
                *depth <= 2
                    && machines.len() <= 2
                    && (0.0..=1.0).contains(&fracs.0 .0)
                    && (0.0..=1.0).contains(&fracs.1 .0)
                    && machines.iter().all(|m| m.states.len() <= 3 && m.all_dists_constant() && m.build().is_ok())
            }
        }
    }

    const ID: &'static str = "C05";
    const RULE: &'static str = "four layers. 'graph': breadth-first exploration of the reachable runtime-state graph of small families (deduplicated on machine states, remaining limits, counters, blocking flag; unlimited budgets, standing clock; up to 3 000 states / depth 8 per family in the quick tier, 40 000 / depth 12 in the thorough tier) with every alphabet symbol and every draw outcome on every edge executed in lock-step; 'exhaustive': for each generated family of 1..=3 small machines (<=3 states, probabilities multiples of 1/4, constant distributions, every action kind, limits, counters, SIGNAL/END targets) ALL histories up to the depth bound over the full event alphabet (10 kinds x ids {each machine, unknown}, the empty batch, up to 36 two-event batches) x clock steps {0,+1,+10^6,-1} x EVERY outcome of every draw are executed in lock-step with the reference semantics (actions, all runtime state and the number/order of random draws compared after every call); 'random': larger random machines (<=6 states, arbitrary probabilities, constant or all distribution families) x histories of <=120 calls with batches in lock-step; 'twin': two identically built instances and a mid-history clone, fed from different threads, must return identical actions. Non-trivial (random/twin): history with >=1 internal event and >=1 draw whose outcome was not the first target; (exhaustive): family in which some draw has >=2 outcomes. Distinct = hash of the case.";

    fn profiles(tier: Tier) -> Vec<Profile> {
        match tier {
            Tier::Quick => vec![prof("exhaustive", 96), prof("graph", 64), prof("random_const", 40_000), prof("random_wild", 20_000), prof("random_many", 1_500), prof("twin", 4_000)],
            Tier::Thorough => vec![prof("exhaustive_deep", 400), prof("graph_deep", 300), prof("random_const", 600_000), prof("random_wild", 300_000), prof("random_many", 20_000), prof("twin", 60_000)],
        }
    }

    fn exhaustive(_tier: Tier) -> bool {
        true
    }

    fn strategy(profile: &str) -> BoxedStrategy<Case> {
        let frac = || prop_oneof![2 => Just(0.0), 1 => proptest::sample::select(vec![0.25, 0.5, 1.0])];
        match profile {
            "exhaustive" => (family(1..=2), frac(), frac())
                .prop_map(|(machines, a, b)| Case::Exhaustive { machines, depth: 2, fracs: (Fx(a), Fx(b)) })
                .boxed(),
            "exhaustive_deep" => (family(1..=3), frac(), frac())
                .prop_map(|(machines, a, b)| Case::Exhaustive { machines, depth: 3, fracs: (Fx(a), Fx(b)) })
                .boxed(),
            "graph" => family_unlimited(1..=2)
                .prop_map(|machines| Case::Graph { machines, max_nodes: 3_000, max_depth: 8 })
                .boxed(),
            "graph_deep" => family_unlimited(1..=3)
                .prop_map(|machines| Case::Graph { machines, max_nodes: 40_000, max_depth: 12 })
                .boxed(),
            "random_const" => {
                let mut mp = MachineParams::default();
                mp.p_trans = [0.4; 13];
                mp.w_signal = 2;
                let hp = HistParams { max_calls: 120, max_batch: 8, ..HistParams::default() };
                fw_case(1..=4, &mp, &hp, true, 24).prop_map(Case::Random).boxed()
            }
            "random_many" => {
                let mut mp = MachineParams { max_states: 2, w_signal: 3, w_end: 1, ..MachineParams::default() };
                mp.p_trans = [0.3; 13];
                mp.p_trans[12] = 0.6;
                let hp = HistParams { max_calls: 8, max_batch: 5, ..HistParams::default() };
                fw_case(65..=140, &mp, &hp, true, 8).prop_map(Case::Random).boxed()
            }
            "random_wild" => {
                let mut mp = MachineParams::default();
                mp.dist = DistProfile::Wild;
                mp.w_signal = 2;
                let hp = HistParams { max_calls: 60, max_batch: 6, ..HistParams::default() };
                fw_case(1..=3, &mp, &hp, true, 0).prop_map(Case::Random).boxed()
            }
            "twin" => {
                let mut mp = MachineParams::default();
                mp.dist = DistProfile::Wild;
                let hp = HistParams { max_calls: 40, max_batch: 6, ..HistParams::default() };
                (fw_case(0..=4, &mp, &hp, true, 0), any::<u16>())
                    .prop_map(|(case, clone_at)| Case::Twin { case, clone_at })
                    .boxed()
            }
            _ => panic!("unknown profile"),
        }
    }

    fn check(case: &Case, obs: &mut Obs) -> Result<(), Failure> {
        match case {
            Case::Exhaustive { machines, depth, fracs } => {
                let built = build_machines(machines).unwrap_or_else(|e| panic!("generator produced an invalid machine: {e}"));
                let n = built.len();
                let fc = FwCase {
                    machines: machines.clone(),
                    max_padding_frac: fracs.0,
                    max_blocking_frac: fracs.1,
                    start: 1_000,
                    words: vec![],
                    seed: 0,
                    calls: vec![],
                };
                let root = Lock::new(&fc, built)?;
                let alpha = alphabet(n, machines);
                let mut dfs = Dfs { alphabet: &alpha, executions: 0, max_outcomes: 0, budget: 3_000_000 };
                let mut path = vec![];
                dfs.explore(&root, *depth, &mut path)?;
                obs.add("lockstep_executions", dfs.executions);
                obs.add("alphabet_symbols", alpha.len() as u64);
                if dfs.executions >= dfs.budget {
                    obs.hit("execution_budget_reached");
                }
                if dfs.max_outcomes >= 2 {
                    obs.hit("family_with_probabilistic_draw");
                    obs.nontrivial();
                }
                if dfs.max_outcomes >= 3 {
                    obs.hit("draw_with_three_or_more_outcomes");
                }
                Ok(())
            }
            Case::Graph { machines, max_nodes, max_depth } => {
                use std::collections::{HashSet, VecDeque};
                let built = build_machines(machines).unwrap_or_else(|e| panic!("generator produced an invalid machine: {e}"));
                let n = built.len();
                let fc = FwCase {
                    machines: machines.clone(),
                    max_padding_frac: Fx(0.0),
                    max_blocking_frac: Fx(0.0),
                    start: 1_000,
                    words: vec![],
                    seed: 0,
                    calls: vec![],
                };
                let root = Lock::new(&fc, built)?;
                let alpha = alphabet(n, machines);
                type Key = (Vec<(usize, u64, u64, u64)>, bool);
                let key = |l: &Lock| -> Key {
                    (l.model.m.iter().map(|m| (m.state, m.limit, m.ca, m.cb)).collect(), l.model.blocking_active)
                };
                let mut seen: HashSet<Key> = HashSet::new();
                seen.insert(key(&root));
                let mut queue: VecDeque<(Lock, u8, String)> = VecDeque::new();
                queue.push_back((root, 0, String::new()));
                let mut executions = 0u64;
                let mut deepest = 0u8;
                while let Some((node, d, path)) = queue.pop_front() {
                    deepest = deepest.max(d);
                    for events in &alpha {
                        let call = Call { clock: Clock::Add(0), events: events.clone() };
                        let mut choices: Vec<usize> = vec![];
                        loop {
                            let mut child = node.fork();
                            let mut ch = Scripted::new(choices.clone());
                            let ctx = format!("{path} | {events:?} outcomes {choices:?}");
                            child.step(&call, &mut ch, &ctx)?;
                            executions += 1;
                            if executions % 4096 == 0 {
                                crate::rt::tick();
                            }
                            if d + 1 < *max_depth && (seen.len() as u32) < *max_nodes && seen.insert(key(&child)) {
                                let p = if path.len() < 400 { ctx.clone() } else { format!("(...) | {events:?} outcomes {choices:?}") };
                                queue.push_back((child, d + 1, p));
                            }
                            let mut next: Vec<usize> = (0..ch.arity.len()).map(|i| choices.get(i).copied().unwrap_or(0)).collect();
                            let mut i = next.len();
                            loop {
                                if i == 0 {
                                    next.clear();
                                    break;
                                }
                                i -= 1;
                                if next[i] + 1 < ch.arity[i] {
                                    next[i] += 1;
                                    next.truncate(i + 1);
                                    break;
                                }
                            }
                            if next.is_empty() {
                                break;
                            }
                            choices = next;
                        }
                    }
                }
                obs.add("graph_lockstep_executions", executions);
                obs.add("graph_states", seen.len() as u64);
                if deepest >= 4 {
                    obs.hit("graph_reached_depth_4_or_more");
                }
                if seen.len() >= 8 {
                    obs.nontrivial();
                }
                Ok(())
            }
            Case::Random(fc) => {
                let built = build_machines(&fc.machines).unwrap_or_else(|e| panic!("generator produced an invalid machine: {e}"));
                if built.len() > 64 {
                    obs.hit("more_than_64_machines");
                }
                let mut l = Lock::new(fc, built)?;
                let mut ch = FromRng;
                let mut any_action = false;
                for (ci, c) in fc.calls.iter().enumerate() {
                    let acts = l.step(c, &mut ch, &format!("call {ci}"))?;
                    any_action |= !acts.is_empty();
                }
                if l.model.internal_events > 0 {
                    obs.hit("internal_event");
                }
                if l.model.non_first_outcomes > 0 {
                    obs.hit("draw_not_first_target");
                }
                if any_action {
                    obs.hit("returned_action");
                }
                if !fc.machines.iter().all(|m| m.all_dists_constant()) {
                    obs.hit("sampled_distribution");
                }
                if l.model.internal_events > 0 && l.model.non_first_outcomes > 0 {
                    obs.nontrivial();
                }
                Ok(())
            }
            Case::Twin { case: fc, clone_at } => {
                let built = build_machines(&fc.machines).unwrap_or_else(|e| panic!("generator produced an invalid machine: {e}"));
                let k = crate::gen::pick(*clone_at, fc.calls.len() + 1);
                // instance A on this thread, keeping a clone taken after call k
                let mut a = FwRun::new(fc, built.clone(), Some(50_000_000)).map_err(|e| Failure { signature: "framework-new-rejects-validated-machines".into(), detail: e })?;
                let mut out_a: Vec<Vec<Act>> = vec![];
                let mut clone: Option<(Fw, u64)> = None;
                for (ci, c) in fc.calls.iter().enumerate() {
                    if ci == k {
                        clone = Some((a.fw.clone(), a.now));
                    }
                    out_a.push(a.call_actions(c));
                }
                // instance B and the clone on other threads, with unrelated frameworks running in between
                let built_ref = &built;
                let n_machines = built.len();
                let (out_b, out_c) = std::thread::scope(|s| {
                    let hb = s.spawn(move || {
                        let mut b = FwRun::new(fc, built_ref.clone(), Some(50_000_000)).expect("twin");
                        let mut unrelated = FwRun::new(fc, built_ref.clone(), None).expect("unrelated");
                        let mut out = vec![];
                        for c in fc.calls.iter() {
                            let _ = unrelated.call_actions(&Call { clock: Clock::Add(7), events: vec![Ev::NormalSent, Ev::PaddingSent(0)] });
                            out.push(b.call_actions(c));
                        }
                        out
                    });
                    let hc = s.spawn(move || {
                        let mut out = vec![];
                        if let Some((fw, now)) = clone {
                            let mut r = FwRun { fw, now, n_machines };
                            for c in fc.calls.iter().skip(k) {
                                out.push(r.call_actions(c));
                            }
                        }
                        out
                    });
                    (hb.join().expect("twin thread"), hc.join().expect("clone thread"))
                });
                if out_a != out_b {
                    let i = out_a.iter().zip(out_b.iter()).position(|(x, y)| x != y);
                    return fail("twin-instances-differ", format!("first difference at call {i:?}"));
                }
                if k < fc.calls.len() && out_a[k..] != out_c[..] {
                    let i = out_a[k..].iter().zip(out_c.iter()).position(|(x, y)| x != y);
                    return fail("clone-differs-from-original", format!("cloned before call {k}; first difference {i:?} calls later"));
                }
                obs.hit("twin_and_clone_agree");
                if out_a.iter().any(|x| !x.is_empty()) {
                    obs.nontrivial();
                }
                Ok(())
            }
        }
    }

    fn required_classes() -> Vec<&'static str> {
        vec![
            "more_than_64_machines",
            "lockstep_executions",
            "graph_lockstep_executions",
            "graph_reached_depth_4_or_more",
            "family_with_probabilistic_draw",
            "internal_event",
            "draw_not_first_target",
            "sampled_distribution",
            "twin_and_clone_agree",
        ]
    }

    fn assumptions() -> Vec<&'static str> {
        vec![
            "the reference semantics (src/model.rs) encode the documentation and the statements of C02-C09; choices made where the documentation is silent are listed in its header",
            "random draws: one 32-bit word per lookup of a non-empty transition list, distributions sampled by the library's own Dist::sample in the documented order; the framework is handed exactly the entries the reference consumed and any surplus or shortfall is a violation",
            "'exhaustive' means: all histories up to the depth bound over the listed alphabet and all draw outcomes, for the sampled families, up to an execution budget per family (class execution_budget_reached counts families that hit it)",
            "'no wall clock, no global state' can only be refuted by the twin/clone runs",
        ]
    }

    fn sample(case: &Case) -> serde_json::Value {
        match case {
            Case::Exhaustive { machines, depth, fracs } => serde_json::json!({
                "layer": "exhaustive", "depth": depth, "fractions": [fracs.0.0, fracs.1.0],
                "family": machines.iter().filter_map(|m| m.build().ok().map(|m| m.serialize())).collect::<Vec<_>>(),
            }),
            Case::Graph { machines, max_nodes, max_depth } => serde_json::json!({
                "layer": "state graph", "max_nodes": max_nodes, "max_depth": max_depth,
                "family": machines.iter().filter_map(|m| m.build().ok().map(|m| m.serialize())).collect::<Vec<_>>(),
            }),
            Case::Random(fc) => serde_json::json!({"layer": "random", "case": crate::props::fw_sample(fc)}),
            Case::Twin { case, clone_at } => serde_json::json!({"layer": "twin", "clone_at": clone_at, "case": crate::props::fw_sample(case)}),
        }
    }
}

#[allow(dead_code)]
fn _unused(_: ScriptRng) {}
