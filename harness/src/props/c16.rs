//! C16, C17, C18 — the simulator against the integration contract (see simmon.rs).

use crate::spec::{Fx, MachineSpec, StateSpec};
use proptest::prelude::*;

use crate::props::c15::sample_of;
use crate::rt::*;
use crate::simmon::{monitor, Stats, Violation};
use crate::simrun::*;

pub struct C16;
pub struct C17;
pub struct C18;

/// machine sets biased towards one aspect of the contract
fn contract_case(bias: &'static str, zero: bool) -> BoxedStrategy<SimCase> {
    contract_case_on(bias, zero, false)
}

/// `grid`: machines with constant timeouts/durations on a millisecond grid, traces and delays on the
/// same grid, so that expiries, firings, cancels and packets fall on the same instants
fn contract_case_on(bias: &'static str, zero: bool, grid: bool) -> BoxedStrategy<SimCase> {
    contract_case_full(bias, zero, grid, false)
}

/// `many`: one side runs 65..=90 small machines (more than a machine word has bits)
fn contract_case_full(bias: &'static str, zero: bool, grid: bool, many: bool) -> BoxedStrategy<SimCase> {
    let mut mp = sim_machine_params(zero);
    if many {
        mp.max_states = 2;
        mp.p_counter = 0.0;
    }
    if grid {
        mp.dist = crate::gen::DistProfile::Grid;
        mp.prob_style = 0;
    }
    match bias {
        "blocking" => {
            mp.kind_weights = [1, 4, 6, 1];
            mp.p_limit = 0.2;
        }
        "timers" => {
            mp.kind_weights = [3, 2, 1, 8];
            mp.p_limit = 0.2;
        }
        _ => {
            // action timers: re-issue before firing, cancels
            mp.kind_weights = [3, 5, 4, 1];
        }
    }
    let (tr, dl) = if grid {
        (grid_trace(30), proptest::sample::select(vec![0u64, 1_000_000, 2_000_000, 5_000_000]).boxed())
    } else {
        (trace(40), delay())
    };
    (
        tr,
        dl,
        if many {
            // half of the cases: every machine active; the other half: a few active machines among idle
            // ones, two of them 64 positions apart (so that they share a bit in any 64-bit mask)
            prop_oneof![
                proptest::collection::vec(crate::gen::machine(&mp), 65..=90),
                (proptest::collection::vec(crate::gen::machine(&mp), 2..=4), 65usize..=130, any::<u16>(), any::<u16>()).prop_map(|(active, n, a, b)| {
                    let idle = MachineSpec {
                        allowed_padding_packets: 0,
                        max_padding_frac: Fx(0.0),
                        allowed_blocked_microsec: 0,
                        max_blocking_frac: Fx(0.0),
                        states: vec![StateSpec::default()],
                    };
                    let mut ms = vec![idle; n];
                    let i = a as usize % (n - 64);
                    let mut it = active.into_iter();
                    ms[i] = it.next().unwrap();
                    ms[i + 64] = it.next().unwrap();
                    for (k, m) in it.enumerate() {
                        let pos = (b as usize + 31 * k) % n;
                        if pos != i && pos != i + 64 {
                            ms[pos] = m;
                        }
                    }
                    ms
                }),
            ]
            .boxed()
        } else {
            sim_machines(3, &mp)
        },
        sim_machines(if many { 1 } else { 3 }, &mp),
        sim_fracs(),
        seed(),
        (any::<bool>(), any::<bool>(), 150usize..1200),
        text_extras(),
        any::<bool>(),
    )
        .prop_map(move |(trace, delay_ns, client, server, fracs, seed, (continue_after, hand_queue, iters), (pad_lines, line_style), swap)| {
            let (client, server) = if many && swap { (server, client) } else { (client, server) };
            SimCase {
            trace,
            delay_ns,
            pps: None,
            client,
            server,
            fracs,
            seed,
            max_trace_length: 0,
            max_sim_iterations: iters,
            continue_after,
            only_client: false,
            only_network: false,
            hand_queue,
            pad_lines,
            line_style,
            repeat: 0,
            base_ns: 0,
            }
        })
        .boxed()
}

fn run(c: &SimCase) -> (Vec<Violation>, Stats) {
    let (mut sq, _) = build_queue(c);
    let client = machines_of(&c.client);
    let server = machines_of(&c.server);
    let out = run_advanced(c, &mut sq, &client, &server);
    monitor(c, &client, &server, &out)
}

fn first(vs: &[Violation], prop: &str) -> Result<(), Failure> {
    match vs.iter().find(|v| v.prop == prop) {
        None => Ok(()),
        Some(v) => fail(v.signature.clone(), v.detail.clone()),
    }
}

const ASSUME: [&str; 4] = [
    "the actions the simulator received are recovered by replaying each side's events through a fresh Framework seeded like the simulator's (client: seed, server: seed+1) at the time of the first event; this relies on C05 (determinism) and on the unfiltered trace containing every processed event in processing order",
    "the verif hook's fire log tells at which position of the processing order the simulator executed a due action / expired a timer; whether acting then was right is judged against the replayed framework",
    "a packet leaving exactly at the expiry instant of a blocking period is not counted as leaving during the blocking",
    "no integration delays, no explicit packets-per-second limit",
];

impl Prop for C16 {
    type Case = SimCase;
    fn admissible(c: &SimCase) -> bool {
        crate::props::sim_admissible(c) && c.pps.is_none() && !c.only_client && !c.only_network && c.max_trace_length == 0
    }

    const ID: &'static str = "C16";
    const RULE: &'static str = "case = trace (1..=40 lines) x delay x 0..=3 machines per side biased to BlockOutgoing (all four bypass/replace combinations) and SendPadding, light distributions (timeouts from 0; durations from 1 us in profile 'blocking', from 0 in profile 'zero') x fractions x seed, iteration-bounded, unfiltered. Non-trivial: a blocking period that held a queued packet (TunnelSent released at the BlockingEnd instant) or that a second action updated. Distinct = hash of the case.";
    fn profiles(tier: Tier) -> Vec<Profile> {
        match tier {
            Tier::Quick => vec![prof("blocking", 36_000), prof("zero", 18_000), prof("grid", 30_000), prof("many", 600)],
            Tier::Thorough => vec![prof("blocking", 450_000), prof("zero", 200_000), prof("grid", 400_000), prof("many", 8_000)],
        }
    }
    fn strategy(profile: &str) -> BoxedStrategy<SimCase> {
        if profile == "grid" {
            return contract_case_on("blocking", true, true);
        }
        if profile == "many" {
            return contract_case_full("blocking", true, true, true);
        }
        contract_case("blocking", profile == "zero")
    }
    fn check(c: &SimCase, obs: &mut Obs) -> Result<(), Failure> {
        let (vs, st) = run(c);
        if c.client.len() > 64 || c.server.len() > 64 {
            obs.hit("more_than_64_machines_on_a_side");
        }
        obs.add("blocking_periods", st.periods);
        obs.add("period_updated_by_second_action", st.period_updates);
        obs.add("update_with_different_bypass_flag", st.update_with_different_bypass);
        obs.add("bypass_padding_during_nonbypass_blocking", st.bypass_padding_during_nonbypass_blocking);
        obs.add("zero_duration_block", st.zero_duration_block);
        obs.add("replace_shortened_period", st.replace_shortened);
        obs.add("tunnel_sent_inside_period", st.tunnel_sent_inside_period);
        obs.add("packet_held_by_blocking", st.packet_held_by_blocking);
        if st.packet_held_by_blocking > 0 || st.period_updates > 0 {
            obs.nontrivial();
        }
        first(&vs, "C16")
    }
    fn required_classes() -> Vec<&'static str> {
        vec![
            "more_than_64_machines_on_a_side",
            "blocking_periods",
            "period_updated_by_second_action",
            "update_with_different_bypass_flag",
            "bypass_padding_during_nonbypass_blocking",
            "zero_duration_block",
            "replace_shortened_period",
            "tunnel_sent_inside_period",
            "packet_held_by_blocking",
        ]
    }
    fn assumptions() -> Vec<&'static str> {
        ASSUME.to_vec()
    }
    fn sample(c: &SimCase) -> serde_json::Value {
        sample_of(c)
    }
}

impl Prop for C17 {
    type Case = SimCase;
    fn admissible(c: &SimCase) -> bool {
        crate::props::sim_admissible(c) && c.pps.is_none() && !c.only_client && !c.only_network && c.max_trace_length == 0
    }

    const ID: &'static str = "C17";
    const RULE: &'static str = "case = trace x delay x 0..=3 machines per side biased to SendPadding/BlockOutgoing with timeouts from 0 upwards, re-issued before they fire, and Cancel actions of each timer kind x fractions x seed, iteration-bounded, unfiltered. Non-trivial: a run in which an action was superseded or cancelled before firing and another one fired. Distinct = hash of the case.";
    fn profiles(tier: Tier) -> Vec<Profile> {
        match tier {
            Tier::Quick => vec![prof("actions", 36_000), prof("zero", 18_000), prof("grid", 30_000), prof("many", 600)],
            Tier::Thorough => vec![prof("actions", 450_000), prof("zero", 200_000), prof("grid", 400_000), prof("many", 8_000)],
        }
    }
    fn strategy(profile: &str) -> BoxedStrategy<SimCase> {
        if profile == "grid" {
            return contract_case_on("actions", true, true);
        }
        if profile == "many" {
            return contract_case_full("actions", true, true, true);
        }
        contract_case("actions", profile == "zero")
    }
    fn check(c: &SimCase, obs: &mut Obs) -> Result<(), Failure> {
        let (vs, st) = run(c);
        if c.client.len() > 64 || c.server.len() > 64 {
            obs.hit("more_than_64_machines_on_a_side");
        }
        obs.add("padding_fired", st.fires_padding);
        obs.add("blocking_fired", st.fires_blocking);
        obs.add("superseded_before_firing", st.superseded);
        obs.add("action_timer_cancelled", st.cancelled_action);
        if (st.superseded > 0 || st.cancelled_action > 0) && (st.fires_padding + st.fires_blocking) > 0 {
            obs.nontrivial();
        }
        if !c.client.is_empty() && !c.server.is_empty() {
            obs.hit("machines_on_both_sides");
        }
        first(&vs, "C17")
    }
    fn required_classes() -> Vec<&'static str> {
        vec!["more_than_64_machines_on_a_side", "padding_fired", "blocking_fired", "superseded_before_firing", "action_timer_cancelled", "machines_on_both_sides"]
    }
    fn assumptions() -> Vec<&'static str> {
        ASSUME.to_vec()
    }
    fn sample(c: &SimCase) -> serde_json::Value {
        sample_of(c)
    }
}

impl Prop for C18 {
    type Case = SimCase;
    fn admissible(c: &SimCase) -> bool {
        crate::props::sim_admissible(c) && c.pps.is_none() && !c.only_client && !c.only_network && c.max_trace_length == 0
    }

    const ID: &'static str = "C18";
    const RULE: &'static str = "case = trace x delay x 0..=3 machines per side biased to UpdateTimer (both replace settings, durations from 1 us in profile 'timers', from 0 in profile 'zero') and Cancel x fractions x seed, iteration-bounded, unfiltered. Non-trivial: a run with a non-replace update that did not change the timer, one that did, and a TimerEnd. Distinct = hash of the case.";
    fn profiles(tier: Tier) -> Vec<Profile> {
        match tier {
            Tier::Quick => vec![prof("timers", 36_000), prof("zero", 18_000), prof("grid", 30_000), prof("many", 600)],
            Tier::Thorough => vec![prof("timers", 450_000), prof("zero", 200_000), prof("grid", 400_000), prof("many", 8_000)],
        }
    }
    fn strategy(profile: &str) -> BoxedStrategy<SimCase> {
        if profile == "grid" {
            return contract_case_on("timers", true, true);
        }
        if profile == "many" {
            return contract_case_full("timers", true, true, true);
        }
        contract_case("timers", profile == "zero")
    }
    fn check(c: &SimCase, obs: &mut Obs) -> Result<(), Failure> {
        let (vs, st) = run(c);
        if c.client.len() > 64 || c.server.len() > 64 {
            obs.hit("more_than_64_machines_on_a_side");
        }
        obs.add("update_changed_timer", st.timer_changed_update);
        obs.add("update_left_timer_unchanged", st.timer_unchanged_update);
        obs.add("timer_end", st.timer_end);
        obs.add("internal_timer_cancelled", st.cancelled_internal);
        obs.add("zero_duration_update", st.zero_duration_timer);
        obs.add("repeated_update_at_one_instant", st.same_instant_updates);
        if st.timer_changed_update > 0 && st.timer_unchanged_update > 0 && st.timer_end > 0 {
            obs.nontrivial();
        }
        first(&vs, "C18")
    }
    fn required_classes() -> Vec<&'static str> {
        vec![
            "more_than_64_machines_on_a_side",
            "update_changed_timer",
            "update_left_timer_unchanged",
            "timer_end",
            "internal_timer_cancelled",
            "zero_duration_update",
            "repeated_update_at_one_instant",
        ]
    }
    fn assumptions() -> Vec<&'static str> {
        ASSUME.to_vec()
    }
    fn sample(c: &SimCase) -> serde_json::Value {
        sample_of(c)
    }
}

/// debugging aid: `mbn-verif probe simdump <replay.json>`
pub fn simdump(path: &str) -> i32 {
    let s = std::fs::read_to_string(path).expect("read");
    let v: serde_json::Value = serde_json::from_str(&s).expect("json");
    let c: SimCase = serde_json::from_value(v.get("case").cloned().unwrap_or(v)).expect("case");
    let (mut sq, _) = build_queue(&c);
    let client = machines_of(&c.client);
    let server = machines_of(&c.server);
    let out = run_advanced(&c, &mut sq, &client, &server);
    let anchor = out.events[0].time;
    let rs = recs(&out.events, anchor);
    let fires = fire_recs(&out.fires, anchor);
    let mut fi = 0;
    for (k, r) in rs.iter().enumerate() {
        while fi < fires.len() && fires[fi].pos <= k {
            println!("      FIRE {:?}", fires[fi]);
            fi += 1;
        }
        println!("#{k:4} {:>12} {} {:?} pad={} bypass={} replace={}", r.t, if r.client { "C" } else { "S" }, r.ev, r.padding, r.bypass, r.replace);
    }
    let (vs, _) = monitor(&c, &client, &server, &out);
    for v in vs {
        println!("{} {}: {}", v.prop, v.signature, v.detail);
    }
    0
}
