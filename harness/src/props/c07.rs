//! C07 — per-state limits. A monitor walks the hook's step log and keeps, per
//! machine, the remaining limit of the current stay, derived only from the
//! machine definition and the reported completions.

use std::collections::HashMap;

use maybenot::constants::{STATE_END, STATE_SIGNAL};
use maybenot::event::Event;
use maybenot::verif::VerifStep;
use proptest::prelude::*;

use crate::fw::*;
use crate::gen::*;
use crate::props::c04::matches_spec;
use crate::rt::*;
use crate::spec::*;

pub struct C07;

#[derive(Clone, Copy, Debug, PartialEq)]
enum Lim {
    /// the state's action carries no limit (or the state has no action)
    Unlimited,
    Known(u64),
    /// sampled from a non-constant distribution and not yet observed
    Unknown,
}

fn limit_of(spec: &MachineSpec, s: usize) -> Lim {
    match spec.states[s].action.and_then(|a| a.limit().copied()) {
        None => Lim::Unlimited,
        Some(d) => match d.as_constant() {
            Some(v) => Lim::Known(v.round() as u64),
            None => Lim::Unknown,
        },
    }
}

fn has_limit(spec: &MachineSpec, s: usize) -> bool {
    s < spec.states.len() && spec.states[s].action.and_then(|a| a.limit().copied()).is_some()
}

/// rounded support of a sampled (Uniform) limit
fn support(spec: &MachineSpec, s: usize) -> Option<(u64, u64)> {
    let d = spec.states[s].action.and_then(|a| a.limit().copied())?;
    if let DistKind::Uniform { low, high } = d.kind {
        let lo = (low.0 + d.start.0).max(0.0);
        let hi = (high.0 + d.start.0).max(0.0);
        return Some((lo.round() as u64, hi.round() as u64));
    }
    None
}

struct Mon {
    cur: usize,
    remaining: Lim,
    /// remaining limit of the most recent stay in each state
    last: HashMap<usize, Lim>,
    pending: Option<usize>,
    /// the current stay began in this call and no own completion has been counted since
    fresh_unknown: bool,
}

impl Prop for C07 {
    type Case = FwCase;
    fn admissible(case: &FwCase) -> bool {
        crate::props::fw_admissible(case)
            && case.max_padding_frac.0 == 0.0
            && case.max_blocking_frac.0 == 0.0
            && case.machines.iter().all(|m| {
                m.allowed_padding_packets == u64::MAX
                    && m.allowed_blocked_microsec == u64::MAX
                    && m.max_padding_frac.0 == 0.0
                    && m.max_blocking_frac.0 == 0.0
            })
    }

    const ID: &'static str = "C07";
    const RULE: &'static str = "case = 1..=3 machines (<=3 states) with limited SendPadding/BlockOutgoing/UpdateTimer (constant limits 0..=5 incl. fractional constants, and sampled Uniform limits), unlimited packet/time budgets, self-loops on completion events, CounterZero and LimitReached round trips x history of single-event calls and batches interleaving completions for the right machine, for neighbours and for unknown ids x scripted/seeded stream. Oracle = monitor over step log + returned actions (limit per stay from the definition; for sampled limits from the first snapshot). Non-trivial: a stay in which the limit was reached, or a state entered with L=0, or a foreign/unknown-id completion arrived during a limited stay, or a limited state was left and re-entered within one call. Distinct = hash of the case.";

    fn profiles(tier: Tier) -> Vec<Profile> {
        match tier {
            Tier::Quick => vec![prof("const_single", 100_000), prof("const_batch", 100_000), prof("sampled", 60_000), prof("capi", 8_000)],
            Tier::Thorough => vec![prof("const_single", 800_000), prof("const_batch", 800_000), prof("sampled", 500_000), prof("capi", 100_000)],
        }
    }

    fn strategy(profile: &str) -> BoxedStrategy<FwCase> {
        if profile == "capi" {
            // limits for C callers: completions for the right, other and unknown ids through the C API
            let hp = HistParams { min_calls: 3, max_calls: 60, max_batch: 5, ev_weights: [1, 1, 1, 3, 8, 1, 6, 2, 6, 2], w_unknown_id: 3, ..HistParams::default() };
            return crate::props::capi_case(1..=3, |mp| { mp.max_states = 3; mp.p_action = 0.9; mp.p_limit = 0.9; mp.budgets = BudgetProfile::Unlimited; }, &hp);
        }
        let mut mp = MachineParams {
            max_states: 3,
            p_action: 0.9,
            kind_weights: [1, 4, 4, 4],
            p_limit: 0.8,
            p_counter: 0.35,
            w_end: 1,
            w_signal: 1,
            budgets: BudgetProfile::Unlimited,
            ..MachineParams::default()
        };
        mp.p_trans = [0.25; 13];
        mp.p_trans[4] = 0.5;
        mp.p_trans[6] = 0.5;
        mp.p_trans[10] = 0.5;
        mp.p_trans[8] = 0.6;
        mp.p_trans[9] = 0.6;
        let mut hp = HistParams {
            min_calls: 3,
            max_calls: 60,
            max_batch: 6,
            ev_weights: [1, 1, 1, 1, 8, 1, 8, 1, 8, 1],
            w_unknown_id: 2,
            clock: ClockProfile::Monotone,
            ..HistParams::default()
        };
        match profile {
            "const_single" => hp.single = true,
            "const_batch" => {}
            "sampled" => {
                mp.dist = DistProfile::Light;
                mp.p_counter = 0.1;
            }
            _ => panic!("unknown profile"),
        }
        fw_case(1..=3, &mp, &hp, false, if profile == "sampled" { 0 } else { 16 })
    }

    fn check(case: &FwCase, obs: &mut Obs) -> Result<(), Failure> {
        let machines = build_machines(&case.machines)
            .unwrap_or_else(|e| panic!("generator produced a machine that Machine::new rejects: {e}"));
        let n = machines.len();
        if case.seed == crate::props::CAPI_MARK {
            crate::props::capi_pass(case, obs)?;
        }
        let mut run = FwRun::new(case, machines, Some(50_000_000))
            .map_err(|e| Failure { signature: "framework-new-rejects-validated-machines".into(), detail: e })?;
        let mut mons: Vec<Mon> = (0..n)
            .map(|m| Mon {
                cur: 0,
                remaining: limit_of(&case.machines[m], 0),
                last: HashMap::new(),
                pending: None,
                fresh_unknown: true,
            })
            .collect();
        // limits of state 0 sampled at construction: observe them
        let s0 = snap(&run.fw);
        for m in 0..n {
            if mons[m].remaining == Lim::Unknown {
                let l = s0.machines[m].limit;
                if let Some((lo, hi)) = support(&case.machines[m], 0) {
                    if l < lo || l > hi {
                        return fail("sampled-limit-outside-support", format!("machine {m} state 0: limit {l} not in [{lo},{hi}]"));
                    }
                }
                mons[m].remaining = Lim::Known(l);
            }
            mons[m].fresh_unknown = false;
        }
        let mut nt = false;

        for (ci, c) in case.calls.iter().enumerate() {
            let rec = run.call(c);
            for mon in mons.iter_mut() {
                mon.pending = None;
                mon.fresh_unknown = false;
            }
            let steps = &rec.steps;
            let mut entered_in_call: Vec<Vec<usize>> = vec![vec![]; n];
            // which machine is awaiting the decrement decision of a completion
            // (machine, changed, ext)
            let mut awaiting: Option<(usize, bool, usize)> = None;
            let mut i = 0;
            let mut last_ext_counted: Vec<usize> = vec![0; n];
            while i <= steps.len() {
                // decide whether the pending completion's handling is over
                if let Some((m, changed, ext)) = awaiting {
                    let over = if i == steps.len() {
                        true
                    } else {
                        match &steps[i] {
                            VerifStep::Transition { machine, event, ext: e2, .. } => {
                                *machine != m || *e2 != ext || !matches!(event, Event::CounterZero)
                            }
                            VerifStep::Target { machine, .. } => *machine != m,
                            VerifStep::Schedule { machine, .. } => *machine != m,
                            VerifStep::Withdraw { .. } => true,
                        }
                    };
                    if over {
                        awaiting = None;
                        let spec = &case.machines[m];
                        let mon = &mut mons[m];
                        if !changed && mon.cur != STATE_END {
                            // a completion counted against the current stay
                            let limited = has_limit(spec, mon.cur);
                            let before = mon.remaining;
                            if let Lim::Known(r) = mon.remaining {
                                mon.remaining = Lim::Known(r.saturating_sub(1));
                            }
                            mon.fresh_unknown = false;
                            let raised = i + 1 < steps.len()
                                && matches!(&steps[i], VerifStep::Withdraw { machine } if *machine == m)
                                && matches!(&steps[i + 1], VerifStep::Transition { machine, event: Event::LimitReached, .. } if *machine == m);
                            let raised_any = i < steps.len()
                                && (matches!(&steps[i], VerifStep::Withdraw { machine } if *machine == m)
                                    || matches!(&steps[i], VerifStep::Transition { machine, event: Event::LimitReached, .. } if *machine == m));
                            if limited {
                                match (before, mon.remaining) {
                                    (Lim::Known(1), Lim::Known(0)) => {
                                        obs.hit("limit_reached");
                                        nt = true;
                                        if !raised {
                                            return fail(
                                                "limit-reached-not-raised",
                                                format!("call {ci}: machine {m} in state {} used up its limit with this completion but the pending action was not withdrawn and LimitReached raised", mon.cur),
                                            );
                                        }
                                    }
                                    (Lim::Known(0), Lim::Known(0)) => {
                                        // a further completion in an exhausted stay: any action pending in
                                        // this call is withdrawn and LimitReached raised again
                                        obs.hit("completion_after_limit_used_up");
                                        if !raised {
                                            return fail(
                                                "limit-reached-not-raised-on-exhausted-limit",
                                                format!("call {ci}: machine {m} in state {}: a completion arrived with the limit already used up (or sampled as 0) but the pending action was not withdrawn and LimitReached raised", mon.cur),
                                            );
                                        }
                                    }
                                    (_, Lim::Known(r)) if r > 0 => {
                                        if raised_any {
                                            return fail(
                                                "limit-reached-early",
                                                format!("call {ci}: machine {m} in state {}: LimitReached raised with {r} completions still allowed in this stay", mon.cur),
                                            );
                                        }
                                    }
                                    _ => {}
                                }
                            } else if raised_any {
                                return fail(
                                    "limit-reached-without-limit",
                                    format!("call {ci}: machine {m} in state {} has no limited action", mon.cur),
                                );
                            }
                        }
                    }
                }
                if i == steps.len() {
                    break;
                }
                match &steps[i] {
                    VerifStep::Transition { ext, machine, event, state_before } => {
                        let m = *machine;
                        mons[m].cur = *state_before;
                        // is this the top-level delivery of an own completion?
                        if *ext != usize::MAX && *ext >= 1 && *ext <= c.events.len() {
                            let ev = &c.events[*ext - 1];
                            let is_completion = matches!(ev, Ev::PaddingSent(x) | Ev::BlockingBegin(x) | Ev::TimerBegin(x) if *x == m);
                            if is_completion && *event == ev.event() && last_ext_counted[m] != *ext {
                                last_ext_counted[m] = *ext;
                                if *state_before != STATE_END {
                                    awaiting = Some((m, false, *ext));
                                }
                            } else if matches!(ev, Ev::PaddingSent(x) | Ev::BlockingBegin(x) | Ev::TimerBegin(x) if *x != m)
                                && has_limit(&case.machines[m], *state_before)
                                && *event == ev.event()
                            {
                                obs.hit("foreign_completion_during_limited_stay");
                                nt = true;
                            }
                        }
                    }
                    VerifStep::Target { machine, target } => {
                        let m = *machine;
                        let spec = &case.machines[m];
                        if let Some(t) = *target {
                            let mon = &mut mons[m];
                            if t == STATE_END {
                                let (c0, r0) = (mon.cur, mon.remaining);
                                mon.last.insert(c0, r0);
                                mon.cur = STATE_END;
                                mon.remaining = Lim::Unlimited;
                                if let Some((am, _, ext)) = awaiting {
                                    if am == m {
                                        awaiting = Some((am, true, ext));
                                    }
                                }
                            } else if t != STATE_SIGNAL && t != mon.cur {
                                let (c0, r0) = (mon.cur, mon.remaining);
                                mon.last.insert(c0, r0);
                                mon.cur = t;
                                mon.remaining = limit_of(spec, t);
                                mon.fresh_unknown = mon.remaining == Lim::Unknown;
                                if has_limit(spec, t) {
                                    if entered_in_call[m].contains(&t) {
                                        obs.hit("reentered_within_call");
                                        nt = true;
                                    }
                                    entered_in_call[m].push(t);
                                    if mon.remaining == Lim::Known(0) {
                                        obs.hit("entered_with_zero_limit");
                                        nt = true;
                                    }
                                }
                                if let Some((am, _, ext)) = awaiting {
                                    if am == m {
                                        awaiting = Some((am, true, ext));
                                    }
                                }
                            } else if t == mon.cur && has_limit(spec, t) {
                                obs.hit("self_transition_in_limited_state");
                            }
                        }
                    }
                    VerifStep::Schedule { machine, state } => {
                        let m = *machine;
                        let spec = &case.machines[m];
                        let mon = &mut mons[m];
                        if has_limit(spec, *state) {
                            let r = if *state == mon.cur {
                                mon.remaining
                            } else {
                                mon.last.get(state).copied().unwrap_or(Lim::Unknown)
                            };
                            if r == Lim::Known(0) {
                                return fail(
                                    "limited-action-scheduled-with-exhausted-limit",
                                    format!("call {ci}: machine {m}: the limited action of state {state} was scheduled although the limit of its stay is used up (or was sampled as 0)"),
                                );
                            }
                        }
                        mon.pending = if spec.states[*state].action.is_some() { Some(*state) } else { None };
                    }
                    VerifStep::Withdraw { machine } => {
                        mons[*machine].pending = None;
                    }
                }
                i += 1;
            }

            // returned actions agree with what the log says is pending
            for m in 0..n {
                let ret = rec.actions.iter().find(|a| a.machine() == m);
                match (mons[m].pending, ret) {
                    (None, Some(a)) => {
                        return fail(
                            "action-returned-after-withdrawal",
                            format!("call {ci}: machine {m} returned {a:?} although nothing is pending after the last withdrawal/scheduling"),
                        );
                    }
                    (Some(s), None) => {
                        return fail(
                            "scheduled-action-not-returned",
                            format!("call {ci}: machine {m}: the action of state {s} was scheduled and not withdrawn, yet nothing was returned"),
                        );
                    }
                    (Some(s), Some(a)) => {
                        if !matches_spec(a, &case.machines[m].states[s].action.unwrap()) {
                            return fail("returned-action-differs-from-scheduled", format!("call {ci}: machine {m}: {a:?} vs state {s}"));
                        }
                    }
                    (None, None) => {}
                }
            }

            // sampled limits: observe L right after the call that began the stay
            for m in 0..n {
                let mon = &mut mons[m];
                if mon.remaining == Lim::Unknown && mon.fresh_unknown && mon.cur != STATE_END {
                    let l = rec.snap.machines[m].limit;
                    if let Some((lo, hi)) = support(&case.machines[m], mon.cur) {
                        if l < lo || l > hi {
                            return fail(
                                "sampled-limit-outside-support",
                                format!("call {ci}: machine {m} state {}: limit {l} not in [{lo},{hi}]", mon.cur),
                            );
                        }
                    }
                    mon.remaining = Lim::Known(l);
                    obs.hit("sampled_limit_observed");
                    if l == 0 {
                        obs.hit("entered_with_zero_limit");
                        if mon.pending == Some(mon.cur) {
                            return fail(
                                "limited-action-scheduled-with-exhausted-limit",
                                format!("call {ci}: machine {m}: state {} was entered with a sampled limit of 0 but its action was returned", mon.cur),
                            );
                        }
                    }
                }
                // the implementation's remaining limit may never exceed the monitor's
                if let Lim::Known(r) = mon.remaining {
                    if mon.cur != STATE_END && has_limit(&case.machines[m], mon.cur) && rec.snap.machines[m].state == mon.cur {
                        let impl_r = rec.snap.machines[m].limit;
                        if impl_r > r {
                            return fail(
                                "limit-refreshed-or-not-consumed",
                                format!("call {ci}: machine {m} state {}: {impl_r} completions still allowed by the framework, {r} by the definition and the history", mon.cur),
                            );
                        }
                        if impl_r < r {
                            return fail(
                                "limit-consumed-without-own-completion",
                                format!("call {ci}: machine {m} state {}: {impl_r} completions still allowed by the framework, {r} by the definition and the history", mon.cur),
                            );
                        }
                    }
                }
            }

            // positive expectation (budgets are unlimited in this domain): in a
            // single-event call, a machine that made exactly one plain state
            // change into a state with a limited action and L > 0 must return it
            if c.events.len() == 1 {
                for m in 0..n {
                    let trans: Vec<&VerifStep> = steps
                        .iter()
                        .filter(|s| matches!(s, VerifStep::Transition { machine, .. } if *machine == m))
                        .collect();
                    if trans.len() != 1 {
                        continue;
                    }
                    let VerifStep::Transition { state_before, .. } = trans[0] else { continue };
                    let tgt = steps.iter().find_map(|s| match s {
                        VerifStep::Target { machine, target } if *machine == m => Some(*target),
                        _ => None,
                    });
                    if let Some(Some(t)) = tgt {
                        if t < case.machines[m].states.len() && t != *state_before {
                            if let Some(a) = case.machines[m].states[t].action {
                                let l = limit_of(&case.machines[m], t);
                                let positive = match l {
                                    Lim::Known(x) => x > 0,
                                    Lim::Unlimited => true,
                                    Lim::Unknown => rec.snap.machines[m].limit > 0,
                                };
                                let blocking_time_ok = !matches!(a, ActionSpec::Block { .. }) || rec.snap.blocking_us < u64::MAX / 4;
                                if positive && blocking_time_ok {
                                    obs.hit("entry_expected_action");
                                    let ret = rec.actions.iter().find(|x| x.machine() == m);
                                    if !ret.map(|x| matches_spec(x, &a)).unwrap_or(false) {
                                        return fail(
                                            "entered-state-with-positive-limit-but-no-action",
                                            format!("call {ci}: machine {m} entered state {t} (limit {l:?}) from state {state_before} but returned {ret:?}"),
                                        );
                                    }
                                }
                            }
                        }
                    }
                }
            }
        }
        if nt {
            obs.nontrivial();
        }
        Ok(())
    }

    fn required_classes() -> Vec<&'static str> {
        vec![
            "limit_reached",
            "entered_with_zero_limit",
            "foreign_completion_during_limited_stay",
            "reentered_within_call",
            "self_transition_in_limited_state",
            "sampled_limit_observed",
            "entry_expected_action",
        ]
    }

    fn assumptions() -> Vec<&'static str> {
        vec![
            "the verif hook's step log (deliveries, sampled targets, schedulings, withdrawals) and snapshot (remaining limit) are faithful",
            "packet and time budgets are unlimited in this domain, so only the per-state limit can withhold an action",
            "a completion that arrives when the limit is already used up (or was sampled as 0) must again withdraw the pending action and raise LimitReached (behaviour of the pinned tree, also fixed by C05's reference semantics)",
        ]
    }

    fn sample(case: &FwCase) -> serde_json::Value {
        crate::props::fw_sample(case)
    }
}
