//! C08 — counters: a counter mini-model driven by the implementation's own
//! step log (which states were entered, in which order) predicts every counter
//! value and every CounterZero delivery.

use maybenot::constants::STATE_END;
use maybenot::event::Event;
use proptest::prelude::*;

use crate::fw::*;
use crate::gen::*;
use crate::rt::*;
use crate::spec::*;
use crate::steplog::{parse, Item, Node};

pub struct C08;

fn value_of(c: &CounterSpec, other_old: u64) -> u128 {
    if c.copy {
        other_old as u128
    } else {
        match c.dist {
            None => 1,
            Some(d) => {
                let v = d.as_constant().expect("C08 uses constant distributions");
                // the documented conversion: the sampled real number truncated into the register
                if v.is_nan() || v <= 0.0 {
                    0
                } else if v >= 1.8446744073709552e19 {
                    u64::MAX as u128
                } else {
                    v as u128
                }
            }
        }
    }
}

fn apply(op: u8, old: u64, val: u128) -> u64 {
    let r: i128 = match op {
        0 => old as i128 + val as i128,
        1 => old as i128 - val as i128,
        _ => val as i128,
    };
    r.clamp(0, u64::MAX as i128) as u64
}

struct CState {
    a: u64,
    b: u64,
    zeroed_a: bool,
    zeroed_b: bool,
}

fn walk_node(
    node: &Node,
    case: &FwCase,
    cs: &mut [CState],
    obs: &mut Obs,
    ci: usize,
    nt: &mut bool,
) -> Result<(), Failure> {
    let m = node.machine;
    if let Some(t) = node.regular_target() {
        let st = &case.machines[m].states[t];
        let (a_old, b_old) = (cs[m].a, cs[m].b);
        let mut zero = false;
        if let Some(c) = &st.counter_a {
            let v = value_of(c, b_old);
            let new = apply(c.op, a_old, v);
            if c.copy {
                obs.hit("copy");
                *nt = true;
            }
            if (c.op == 0 && a_old as u128 + v > u64::MAX as u128) || (c.op == 1 && v > a_old as u128) {
                obs.hit("saturated");
                *nt = true;
            }
            cs[m].a = new;
            if a_old != 0 && new == 0 {
                if !cs[m].zeroed_a {
                    zero = true;
                    cs[m].zeroed_a = true;
                } else {
                    obs.hit("second_zeroing_same_call");
                }
            }
        }
        if let Some(c) = &st.counter_b {
            let v = value_of(c, a_old);
            let new = apply(c.op, b_old, v);
            if c.copy {
                obs.hit("copy");
                *nt = true;
            }
            if (c.op == 0 && b_old as u128 + v > u64::MAX as u128) || (c.op == 1 && v > b_old as u128) {
                obs.hit("saturated");
                *nt = true;
            }
            cs[m].b = new;
            if b_old != 0 && new == 0 {
                if !cs[m].zeroed_b {
                    zero = true;
                    cs[m].zeroed_b = true;
                } else {
                    obs.hit("second_zeroing_same_call");
                }
            }
        }
        match (&node.cz, zero) {
            (Some(_), true) => {
                obs.hit("counter_zero_delivered");
                *nt = true;
            }
            (None, true) => {
                return fail(
                    "counterzero-missing",
                    format!(
                        "call {ci}: machine {m} entered state {t}: counters ({a_old},{b_old}) -> ({},{}) took a counter from non-zero to zero for the first time in this call for this machine, but no CounterZero was delivered to it",
                        cs[m].a, cs[m].b
                    ),
                )
            }
            (Some(_), false) => {
                return fail(
                    "counterzero-unexpected",
                    format!(
                        "call {ci}: machine {m} entered state {t}: counters ({a_old},{b_old}) -> ({},{}) but a CounterZero was delivered",
                        cs[m].a, cs[m].b
                    ),
                )
            }
            (None, false) => {}
        }
        if let Some(cz) = &node.cz {
            walk_node(cz, case, cs, obs, ci, nt)?;
            // an action scheduled by the CounterZero handling takes precedence
            let nested_scheduled_action = {
                let mut any = false;
                cz.walk(&mut |n| {
                    if let Some(s) = n.scheduled {
                        if case.machines[m].states[s].action.is_some() {
                            any = true;
                        }
                    }
                });
                any
            };
            if nested_scheduled_action {
                obs.hit("counterzero_scheduled_action");
                if node.scheduled.is_some() {
                    return fail(
                        "entered-state-action-overrides-counterzero-action",
                        format!("call {ci}: machine {m}: the CounterZero transition scheduled an action but the action of entered state {t} was scheduled afterwards"),
                    );
                }
            }
        }
    } else if node.cz.is_some() {
        return fail("counterzero-without-state-entry", format!("call {ci}: machine {m}"));
    }
    Ok(())
}

impl Prop for C08 {
    type Case = FwCase;
    fn admissible(case: &FwCase) -> bool {
        crate::props::fw_admissible(case) && case.machines.iter().all(|m| m.all_dists_constant())
    }

    const ID: &'static str = "C08";
    const RULE: &'static str = "case = 1..=3 machines (<=4 states) with counter specifications on most states (3 operations x {unit, constant-sampled incl. 0, fractional, 2^64-2048, 2^64, 1e30, copy}) on both counters, CounterZero transitions that update counters again / re-enter the origin / schedule actions, several machines zeroing counters in the same call x histories with batches x scripted/seeded stream. Oracle = u128 counter model driven by the step log; predicts every CounterZero delivery and the final register values. Non-trivial: a call with a CounterZero delivery, a saturation event or a copy. Distinct = hash of the case.";

    fn profiles(tier: Tier) -> Vec<Profile> {
        match tier {
            Tier::Quick => vec![prof("counters", 160_000), prof("same_machines", 80_000), prof("many_same", 2_000), prof("capi", 8_000)],
            Tier::Thorough => vec![prof("counters", 1_500_000), prof("same_machines", 700_000), prof("many_same", 25_000), prof("capi", 100_000)],
        }
    }

    fn strategy(profile: &str) -> BoxedStrategy<FwCase> {
        let mut mp = MachineParams {
            max_states: 4,
            p_action: 0.6,
            p_limit: 0.2,
            p_counter: 0.75,
            w_end: 1,
            w_signal: 1,
            budgets: BudgetProfile::Unlimited,
            ..MachineParams::default()
        };
        mp.p_trans = [0.35; 13];
        mp.p_trans[9] = 0.7;
        let hp = HistParams {
            min_calls: 3,
            max_calls: 50,
            max_batch: 8,
            ev_weights: [3, 2, 2, 3, 2, 2, 2, 2, 2, 2],
            clock: ClockProfile::Monotone,
            ..HistParams::default()
        };
        match profile {
            "capi" => crate::props::capi_case(1..=3, |mp| { mp.p_counter = 0.75; mp.p_trans[9] = 0.7; mp.budgets = BudgetProfile::Unlimited; }, &hp),
            "counters" => fw_case(1..=3, &mp, &hp, false, 16),
            "same_machines" => {
                // identical machines side by side: the same counter of several
                // machines reaches zero in the same call
                let mut mp = mp.clone();
                mp.prob_style = 1;
                fw_case(1..=1, &mp, &hp, false, 0)
                    .prop_flat_map(|c| (Just(c), 2usize..=3))
                    .prop_map(|(mut c, k)| {
                        let m = c.machines[0].clone();
                        // certain transitions so the copies move in lock step
                        for _ in 1..k {
                            c.machines.push(m.clone());
                        }
                        c
                    })
                    .boxed()
            }
            "many_same" => {
                // the same, with more copies than a machine word has bits
                let mut mp = mp.clone();
                mp.prob_style = 1;
                mp.max_states = 3;
                let hp = HistParams { min_calls: 2, max_calls: 8, max_batch: 4, ..hp };
                fw_case(1..=1, &mp, &hp, false, 0)
                    .prop_flat_map(|c| (Just(c), 65usize..=140))
                    .prop_map(|(mut c, k)| {
                        let m = c.machines[0].clone();
                        for _ in 1..k {
                            c.machines.push(m.clone());
                        }
                        c
                    })
                    .boxed()
            }
            _ => panic!("unknown profile"),
        }
    }

    fn check(case: &FwCase, obs: &mut Obs) -> Result<(), Failure> {
        let machines = build_machines(&case.machines)
            .unwrap_or_else(|e| panic!("generator produced a machine that Machine::new rejects: {e}"));
        let n = machines.len();
        if n > 64 {
            obs.hit("more_than_64_machines");
        }
        if case.seed == crate::props::CAPI_MARK {
            crate::props::capi_pass(case, obs)?;
        }
        if case.machines.iter().any(|m| {
            m.states.iter().any(|st| {
                [&st.counter_a, &st.counter_b]
                    .iter()
                    .any(|c| c.as_ref().and_then(|c| c.dist).map(|d| d.start.0 != 0.0 || d.max.0 != 0.0).unwrap_or(false))
            })
        }) {
            obs.hit("constant_update_with_start_or_max");
        }
        let mut run = FwRun::new(case, machines, Some(50_000_000))
            .map_err(|e| Failure { signature: "framework-new-rejects-validated-machines".into(), detail: e })?;
        let mut cs: Vec<CState> = (0..n)
            .map(|_| CState { a: 0, b: 0, zeroed_a: false, zeroed_b: false })
            .collect();
        let mut nt = false;
        for (ci, c) in case.calls.iter().enumerate() {
            let rec = run.call(c);
            for s in cs.iter_mut() {
                s.zeroed_a = false;
                s.zeroed_b = false;
            }
            let parsed = parse(&rec.steps);
            if let Some(a) = parsed.anomalies.first() {
                // a CounterZero that is not nested directly after a state entry, or a
                // scheduling before it, shows up as a shape anomaly
                return fail("counterzero-not-before-scheduling-or-log-shape", format!("call {ci}: {a}"));
            }
            let mut zero_machines = 0;
            for it in &parsed.items {
                if let Item::Delivery(node) = it {
                    if node.event == Event::CounterZero {
                        return fail(
                            "counterzero-not-before-scheduling-or-log-shape",
                            format!("call {ci}: CounterZero delivered to machine {} outside the handling of a state entry", node.machine),
                        );
                    }
                    let before = obs.classes.get("counter_zero_delivered").copied().unwrap_or(0);
                    walk_node(node, case, &mut cs, obs, ci, &mut nt)?;
                    if obs.classes.get("counter_zero_delivered").copied().unwrap_or(0) > before {
                        zero_machines += 1;
                    }
                }
            }
            if zero_machines >= 2 {
                obs.hit("several_counterzero_in_one_call");
            }
            for m in 0..n {
                let s = &rec.snap.machines[m];
                if s.ca != cs[m].a || s.cb != cs[m].b {
                    return fail(
                        "counter-value-mismatch",
                        format!(
                            "call {ci}: machine {m}: framework has counters ({},{}), the register model ({},{})",
                            s.ca, s.cb, cs[m].a, cs[m].b
                        ),
                    );
                }
                if s.state == STATE_END {
                    obs.hit("ended_machine");
                }
                if cs[m].a >= u64::MAX - 1 || cs[m].b >= u64::MAX - 1 {
                    obs.hit("value_adjacent_to_max");
                }
            }
        }
        if nt {
            obs.nontrivial();
        }
        Ok(())
    }

    fn required_classes() -> Vec<&'static str> {
        vec![
            "counter_zero_delivered",
            "more_than_64_machines",
            "constant_update_with_start_or_max",
            "saturated",
            "copy",
            "second_zeroing_same_call",
            "several_counterzero_in_one_call",
            "counterzero_scheduled_action",
            "value_adjacent_to_max",
        ]
    }

    fn assumptions() -> Vec<&'static str> {
        vec![
            "the step log tells which states were entered in which order; the counter arithmetic, the zero predictions and the final values are the model's own",
            "counter values are constants in this domain (sampled values are C13's concern); a sampled real number is truncated into the register and saturates at u64::MAX",
            "a counter specification is applied on every logged entry into a regular state, self-transitions included (behaviour of the pinned tree; the statement says 'entering a state')",
        ]
    }

    fn sample(case: &FwCase) -> serde_json::Value {
        crate::props::fw_sample(case)
    }
}
