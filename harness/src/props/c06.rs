//! C06 — transitions follow the declared probabilities over the whole output
//! space of the draw: for each generated probability vector every one of the
//! 2^23 values the uniform draw can take is fed to `State::sample_state`, and
//! the per-target counts are compared with the declared probabilities.

use enum_map::enum_map;
use maybenot::constants::{STATE_END, STATE_SIGNAL};
use maybenot::event::Event;
use maybenot::state::{State, Trans};
use maybenot::Machine;
use proptest::prelude::*;
use proptest::sample::select;
use rand_core::RngCore;
use serde::{Deserialize, Serialize};

use crate::fw::*;
use crate::gen::probs_from_weights;
use crate::rt::*;
use crate::spec::*;

pub struct C06;

fn kk_seed(i: usize) -> usize {
    // a few different draws, none special
    [12345, 1, 8_388_607, 4_194_304, 77, 4096, 999_999, 5, 2_000_000, 31, 7_000_000, 123, 65_536][i % 13]
}


const N: u32 = 1 << 23;

#[derive(Clone, Debug, Serialize, Deserialize)]
pub struct Vector {
    /// (target, probability); targets are 1..=6 (regular), STATE_END or STATE_SIGNAL
    pub trans: Vec<(usize, Fs)>,
}

/// Random source that hands out one fixed 32-bit value.
struct OneWord(u32, u64);
impl RngCore for OneWord {
    fn next_u32(&mut self) -> u32 {
        self.1 += 1;
        self.0
    }
    fn next_u64(&mut self) -> u64 {
        self.1 += 1;
        ((self.0 as u64) << 32) | self.0 as u64
    }
    fn fill_bytes(&mut self, dest: &mut [u8]) {
        for b in dest.iter_mut() {
            *b = self.0 as u8;
        }
    }
    fn try_fill_bytes(&mut self, dest: &mut [u8]) -> Result<(), rand_core::Error> {
        self.fill_bytes(dest);
        Ok(())
    }
}

fn targets() -> BoxedStrategy<Vec<usize>> {
    proptest::collection::vec(
        prop_oneof![6 => 1usize..=6, 1 => Just(STATE_END), 1 => Just(STATE_SIGNAL)],
        1..=6,
    )
    .prop_map(|v| {
        let mut out: Vec<usize> = vec![];
        for t in v {
            if !out.contains(&t) {
                out.push(t);
            }
        }
        out
    })
    .boxed()
}

fn vector(profile: &str) -> BoxedStrategy<Vector> {
    match profile {
        // multiples of 2^-g whose sum is <= 1 (exact counts expected)
        "dyadic" => (targets(), select(vec![1u32, 2, 3, 4, 8, 12, 16, 20, 23]), proptest::collection::vec(any::<u32>(), 6), any::<bool>())
            .prop_map(|(ts, g, raw, full)| {
                let unit = 1u64 << g;
                let k = ts.len().min(unit as usize);
                // split `unit` (or less) into k positive integer parts
                let mut parts = vec![1u64; k];
                let mut left = unit - k as u64;
                if !full && left > 0 {
                    left -= (raw[5] as u64 % (left + 1)).min(left);
                }
                for i in 0..k {
                    if i + 1 == k {
                        parts[i] += left;
                        left = 0;
                    } else {
                        let take = if left == 0 { 0 } else { raw[i] as u64 % (left + 1) };
                        parts[i] += take;
                        left -= take;
                    }
                }
                Vector {
                    trans: ts
                        .into_iter()
                        .take(k)
                        .zip(parts)
                        .map(|(t, p)| (t, Fs(p as f32 / unit as f32)))
                        .collect(),
                }
            })
            .boxed(),
        // dyadic vectors whose sum is a few draw-resolution units below 1 (exact counts expected)
        "near_one" => (targets(), select(vec![23u32, 22, 20, 16]), 1u64..=16, proptest::collection::vec(any::<u32>(), 6))
            .prop_map(|(ts, g, j, raw)| {
                let unit = 1u64 << g;
                let total = unit - j;
                let k = ts.len();
                let mut parts = vec![1u64; k];
                let mut left = total - k as u64;
                for i in 0..k {
                    if i + 1 == k {
                        parts[i] += left;
                    } else {
                        let take = raw[i] as u64 % (left + 1);
                        parts[i] += take;
                        left -= take;
                    }
                }
                Vector {
                    trans: ts.into_iter().zip(parts).map(|(t, p)| (t, Fs(p as f32 / unit as f32))).collect(),
                }
            })
            .boxed(),
        // candidates whose sum is slightly ABOVE one: validation rejects them on the pinned tree; if a
        // weakened check lets one through, the counts below expose the target that can never be drawn
        "over_one" => (targets(), select(vec![1.0e-7f32, 2.0e-7, 1.0e-6, 8.0e-6, 1.0e-5, 1.0e-4, 1.0e-3, 0.01]), proptest::collection::vec(1u32..=1000, 6))
            .prop_map(|(ts, extra, ws)| {
                let k = ts.len().max(2);
                let mut ts = ts;
                while ts.len() < k {
                    ts.push(if ts.contains(&1) { 2 } else { 1 });
                }
                // k-1 targets share exactly one (dyadic), the last one gets the excess
                let mut ps = probs_from_weights(&ws[..k - 1], 0);
                let sum: f32 = ps.iter().sum();
                if sum < 1.0 {
                    ps[0] += 1.0 - sum;
                }
                ps.push(extra);
                Vector { trans: ts.into_iter().zip(ps).map(|(t, p)| (t, Fs(p))).collect() }
            })
            .boxed(),
        // values at the resolution limits of f32 and of the draw
        "edges" => (targets(), proptest::collection::vec(select(vec![
            f32::from_bits(1),
            f32::MIN_POSITIVE,
            1.0e-30,
            5.9604645e-8, // 2^-24
            1.1920929e-7, // 2^-23
            f32::from_bits(0x3400_0000 - 1),
            f32::from_bits(0x3400_0000 + 1),
            2.3841858e-7,
            1.0e-6,
            0.1,
            0.25,
            0.33333334,
            0.5,
            0.99999994, // 1 - 2^-24
            0.9999999,  // 1 - 2^-23
            1.0,
        ]), 6))
            .prop_map(|(ts, ps)| {
                // keep the prefix whose f32 running sum stays <= 1
                let mut sum = 0.0f32;
                let mut trans = vec![];
                for (t, p) in ts.into_iter().zip(ps) {
                    if sum + p <= 1.0 {
                        sum += p;
                        trans.push((t, Fs(p)));
                    }
                }
                if trans.is_empty() {
                    trans.push((1, Fs(1.0)));
                }
                Vector { trans }
            })
            .boxed(),
        // arbitrary weights, with or without residual probability
        "random" => (targets(), proptest::collection::vec(1u32..=1000, 6), prop_oneof![Just(0u32), 1u32..=1000])
            .prop_map(|(ts, ws, residual)| {
                let k = ts.len();
                let ps = probs_from_weights(&ws[..k], residual);
                Vector { trans: ts.into_iter().zip(ps).map(|(t, p)| (t, Fs(p))).collect() }
            })
            .boxed(),
        _ => panic!("unknown profile"),
    }
}

fn probe_state(v: &Vector) -> State {
    State::new(enum_map! {
        Event::NormalRecv => v.trans.iter().map(|(t, p)| Trans(*t, p.0)).collect(),
        _ => vec![],
    })
}

fn pad_state(timeout: f64) -> StateSpec {
    StateSpec {
        action: Some(ActionSpec::Pad {
            bypass: false,
            replace: false,
            timeout: DistSpec::constant(timeout),
            limit: None,
        }),
        ..StateSpec::default()
    }
}

/// machine 0: state 0 carries the vector on NormalRecv, states 1..=6 pad with timeout 100+j;
/// machine 1: listens for Signal and then pads with timeout 999.
fn probe_machines(v: &Vector) -> Vec<MachineSpec> {
    let mut states = vec![StateSpec {
        trans: vec![(0, v.trans.clone())],
        ..StateSpec::default()
    }];
    for j in 1..=6 {
        states.push(pad_state(100.0 + j as f64));
    }
    let listener = MachineSpec {
        allowed_padding_packets: u64::MAX,
        max_padding_frac: Fx(0.0),
        allowed_blocked_microsec: 0,
        max_blocking_frac: Fx(0.0),
        states: vec![
            StateSpec { trans: vec![(12, vec![(1, Fs(1.0))])], ..StateSpec::default() },
            pad_state(999.0),
        ],
    };
    vec![
        MachineSpec {
            allowed_padding_packets: u64::MAX,
            max_padding_frac: Fx(0.0),
            allowed_blocked_microsec: 0,
            max_blocking_frac: Fx(0.0),
            states,
        },
        listener,
    ]
}

impl Prop for C06 {
    type Case = Vector;
    const ID: &'static str = "C06";
    const RULE: &'static str = "case = one validated probability vector of 1..=6 distinct targets (regular states, END, SIGNAL): 'dyadic' (multiples of 2^-g, g in {1..23}, sums up to exactly 1), 'edges' (f32 subnormal, 2^-24, 2^-23 +- ulp, 1-2^-24, 1.0, ...), 'random' (arbitrary weights, with and without residual). For each vector State::sample_state is evaluated on ALL 2^23 values the uniform draw can take (word k<<9, k=0..2^23) and the per-target counts are compared with the declared probabilities (exactly for dyadic vectors, within 1+ceil(i/2) draws otherwise); a stride of words re-checks that the low 9 bits are ignored; a framework-level pass ties the sampled target to the dispatched state / END / SIGNAL at every threshold-adjacent word. Non-trivial: vector with >=2 targets or residual probability > 0. Distinct = hash of the vector.";

    fn profiles(tier: Tier) -> Vec<Profile> {
        match tier {
            Tier::Quick => vec![prof("dyadic", 500), prof("near_one", 400), prof("over_one", 300), prof("edges", 400), prof("random", 500)],
            Tier::Thorough => vec![prof("dyadic", 8_000), prof("near_one", 6_000), prof("over_one", 3_000), prof("edges", 6_000), prof("random", 8_000)],
        }
    }

    fn strategy(profile: &str) -> BoxedStrategy<Vector> {
        vector(profile)
    }

    fn exhaustive(_tier: Tier) -> bool {
        // per vector the 2^23 outcomes of the draw are enumerated completely; the vectors are sampled
        true
    }

    fn check(v: &Vector, obs: &mut Obs) -> Result<(), Failure> {
        // the vector must be one validation accepts
        let state = probe_state(v);
        if Machine::new(0, 0.0, 0, 0.0, {
            let mut s = vec![state.clone()];
            for _ in 0..6 {
                s.push(State::new(enum_map! { _ => vec![] }));
            }
            s
        })
        .is_err()
        {
            obs.hit("vector_rejected_by_validation");
            return Ok(());
        }
        let k = v.trans.len();
        let scaled: Vec<f64> = v.trans.iter().map(|(_, p)| p.0 as f64 * N as f64).collect();
        let dyadic = scaled.iter().all(|s| s.fract() == 0.0);
        let total: f64 = scaled.iter().sum();
        if k >= 2 || total < N as f64 {
            obs.nontrivial();
        }
        obs.hit(if dyadic { "dyadic_exact" } else { "non_dyadic_tolerance" });
        if total == N as f64 {
            obs.hit("sum_exactly_one");
        }
        if v.trans.iter().any(|(t, _)| *t == STATE_END || *t == STATE_SIGNAL) {
            obs.hit("pseudo_state_target");
        }

        // 1. complete enumeration of the draw
        let mut counts = vec![0u64; k];
        let mut none = 0u64;
        let mut rng = OneWord(0, 0);
        // first word at which each outcome starts (thresholds as the implementation sees them)
        let mut boundaries: Vec<u32> = vec![];
        let mut last: Option<Option<usize>> = None;
        for kk in 0..N {
            rng.0 = kk << 9;
            let r = state.sample_state(Event::NormalRecv, &mut rng);
            if last != Some(r) {
                boundaries.push(kk);
                last = Some(r);
            }
            match r {
                None => none += 1,
                Some(t) => match v.trans.iter().position(|(x, _)| *x == t) {
                    Some(i) => counts[i] += 1,
                    None => {
                        return fail("sampled-target-not-in-list", format!("word {kk}<<9 gave target {t}"));
                    }
                },
            }
        }
        if rng.1 != N as u64 {
            return fail("draw-count", format!("{} words drawn for {} lookups", rng.1, N));
        }
        for i in 0..k {
            let diff = (counts[i] as f64 - scaled[i]).abs();
            // one draw of resolution plus the f32 summation error of the preceding addends (<= 1/4 draw each)
            let tol = if dyadic { 0.0 } else { 1.0 + (i as f64 / 2.0).ceil() };
            if diff > tol {
                return fail(
                    if dyadic { "share-differs-from-probability (exact)" } else { "share-differs-from-probability" },
                    format!(
                        "target #{i} ({}) declared p={:?}: chosen on {} of 2^23 draws, expected {} (tolerance {tol})",
                        v.trans[i].0, v.trans[i].1 .0, counts[i], scaled[i]
                    ),
                );
            }
        }
        let none_expected = N as f64 - total;
        let none_tol = if dyadic { 0.0 } else { 1.0 + (k as f64 / 2.0).ceil() };
        if (none as f64 - none_expected).abs() > none_tol {
            return fail(
                "no-transition-share-differs-from-residual",
                format!("no transition on {none} of 2^23 draws, expected {none_expected}"),
            );
        }
        if v.trans.iter().any(|(_, p)| p.0 == 1.0) && none != 0 {
            return fail("probability-one-not-always-taken", format!("{none} draws took no transition"));
        }

        // 2. the low 9 bits of the word do not matter
        let mut kk = 0u32;
        while kk < N {
            rng.0 = kk << 9;
            let a = state.sample_state(Event::NormalRecv, &mut rng);
            for low in [0x1ffu32, 0x0aa, 0x155] {
                rng.0 = (kk << 9) | low;
                if state.sample_state(Event::NormalRecv, &mut rng) != a {
                    return fail("low-bits-of-word-matter", format!("k={kk} low={low:#x}"));
                }
            }
            kk += 4099;
        }
        // an event without transitions never samples
        let before = rng.1;
        for ev in [Event::PaddingRecv, Event::Signal, Event::CounterZero] {
            if state.sample_state(ev, &mut rng).is_some() {
                return fail("transition-without-declaration", format!("{ev:?}"));
            }
        }
        let _ = before;

        // 2b. the same vector arriving through the decoder (kept in its serialized order): a
        // strided enumeration must show the declared shares too
        {
            use std::str::FromStr;
            let mut spec = StateSpec { trans: vec![(0, v.trans.clone())], ..StateSpec::default() };
            spec.action = None;
            let mspec = MachineSpec {
                allowed_padding_packets: 0,
                max_padding_frac: Fx(0.0),
                allowed_blocked_microsec: 0,
                max_blocking_frac: Fx(0.0),
                states: std::iter::once(spec).chain((0..6).map(|_| StateSpec::default())).collect(),
            };
            let text = crate::mirror::v2_string(&crate::mirror::bincode_of(&crate::mirror::mmachine(&mspec)));
            let decoded = Machine::from_str(&text).map_err(|e| Failure {
                signature: "validated-vector-rejected-by-from_str".into(),
                detail: e.to_string(),
            })?;
            let dstate = &decoded.states[0];
            const STRIDE: u32 = 8;
            let mut dcounts = vec![0u64; k];
            let mut kk = 3u32;
            while kk < N {
                rng.0 = kk << 9;
                if let Some(t) = dstate.sample_state(Event::NormalRecv, &mut rng) {
                    match v.trans.iter().position(|(x, _)| *x == t) {
                        Some(i) => dcounts[i] += 1,
                        None => return fail("sampled-target-not-in-list", format!("decoded state, word {kk}<<9 gave target {t}")),
                    }
                }
                kk += STRIDE;
            }
            for i in 0..k {
                let expect = scaled[i] / STRIDE as f64;
                if (dcounts[i] as f64 - expect).abs() > 2.0 + i as f64 {
                    return fail(
                        "share-differs-from-probability (decoded state)",
                        format!("target #{i} ({}) declared p={:?}: a machine decoded from its string chose it on {} of {} strided draws, expected {expect}", v.trans[i].0, v.trans[i].1 .0, dcounts[i], N / STRIDE),
                    );
                }
            }
            obs.hit("decoded_state_checked");

            // every event kind's slot survives the string form: a certain transition declared for
            // event e of a decoded machine is taken on e and on no other event
            for (ei, e) in EVENTS.iter().enumerate() {
                let spec = StateSpec { trans: vec![(ei as u8, vec![(1, Fs(1.0))])], ..StateSpec::default() };
                let mspec = MachineSpec {
                    allowed_padding_packets: 0,
                    max_padding_frac: Fx(0.0),
                    allowed_blocked_microsec: 0,
                    max_blocking_frac: Fx(0.0),
                    states: vec![spec, StateSpec::default()],
                };
                let text = crate::mirror::v2_string(&crate::mirror::bincode_of(&crate::mirror::mmachine(&mspec)));
                let decoded = Machine::from_str(&text).map_err(|e| Failure {
                    signature: "validated-vector-rejected-by-from_str".into(),
                    detail: e.to_string(),
                })?;
                for f in EVENTS.iter() {
                    rng.0 = (kk_seed(ei) as u32) << 9;
                    let got = decoded.states[0].sample_state(*f, &mut rng);
                    let want = if f == e { Some(1) } else { None };
                    if got != want {
                        return fail(
                            "decoded-transition-list-in-the-wrong-event-slot",
                            format!("a machine decoded from its string declares {e:?} -> 1 (p = 1) only: on {f:?} its state gives {got:?}, expected {want:?}"),
                        );
                    }
                }
            }
            obs.hit("decoded_event_slots_checked");
        }

        // 2c. delivery: each external event kind reaches a machine that declares a certain
        // transition on it, whoever the event names (completions of other machines excepted)
        {
            let evs: [(Ev, usize, bool); 14] = [
                (Ev::NormalRecv, 0, true),
                (Ev::PaddingRecv, 1, true),
                (Ev::TunnelRecv, 2, true),
                (Ev::NormalSent, 3, true),
                (Ev::TunnelSent, 5, true),
                (Ev::BlockingEnd, 7, true),
                (Ev::BlockingBegin(0), 6, true),
                (Ev::BlockingBegin(1), 6, true), // blocking is global: another machine's block is seen too
                (Ev::BlockingBegin(9), 6, true),
                (Ev::PaddingSent(0), 4, true),
                (Ev::PaddingSent(1), 4, false),
                (Ev::TimerBegin(0), 10, true),
                (Ev::TimerEnd(0), 11, true),
                (Ev::TimerEnd(1), 11, false),
            ];
            let pick = (v.trans.len() + v.trans[0].0) % evs.len();
            let (ev, eidx, moves) = evs[pick];
            let probe = MachineSpec {
                allowed_padding_packets: u64::MAX,
                max_padding_frac: Fx(0.0),
                allowed_blocked_microsec: 0,
                max_blocking_frac: Fx(0.0),
                states: vec![
                    StateSpec { trans: vec![(eidx as u8, vec![(1, Fs(1.0))])], ..StateSpec::default() },
                    pad_state(777.0),
                ],
            };
            // the neighbour reaches its end state in an earlier call (an ended neighbour changes nothing)
            let (end_ev, end_idx) = if eidx == 0 { (Ev::TunnelRecv, 2u8) } else { (Ev::NormalRecv, 0u8) };
            let idle = MachineSpec {
                states: vec![StateSpec { trans: vec![(end_idx, vec![(maybenot::constants::STATE_END, Fs(1.0))])], ..StateSpec::default() }],
                ..probe.clone()
            };
            let ms = build_machines(&[probe, idle]).unwrap_or_else(|e| panic!("probe machines rejected: {e}"));
            let case = FwCase {
                machines: vec![],
                max_padding_frac: Fx(0.0),
                max_blocking_frac: Fx(0.0),
                start: 0,
                words: vec![],
                seed: v.trans.len() as u64,
                calls: vec![],
            };
            let mut run = FwRun::new(&case, ms, None).map_err(|e| Failure { signature: "framework-new-rejects-validated-machines".into(), detail: e })?;
            let pre = run.call(&Call { clock: Clock::Add(1), events: vec![end_ev] });
            if pre.snap.machines[0].state != 0 {
                return fail("transition-without-declaration", format!("{end_ev:?} moved a machine that declares nothing for it"));
            }
            let rec = run.call(&Call { clock: Clock::Add(1), events: vec![ev] });
            let moved = rec.snap.machines[0].state == 1;
            if moved != moves {
                return fail(
                    "certain-transition-not-taken-or-taken-for-foreign-completion",
                    format!("a machine with a probability-1 transition on {ev:?}: moved = {moved}, expected {moves}"),
                );
            }
            obs.hit("delivery_probe");

            // 2d. the internal Signal event: k machines signal on the same NormalSent, every machine
            // declares Signal -> 1 with probability 1. One signaller: everybody else moves; two or
            // more: everybody moves (the documented signalling rule)
            let k = 1 + (v.trans.len() + v.trans[0].0) % 4;
            let signaller = MachineSpec {
                allowed_padding_packets: u64::MAX,
                max_padding_frac: Fx(0.0),
                allowed_blocked_microsec: 0,
                max_blocking_frac: Fx(0.0),
                states: vec![
                    StateSpec { trans: vec![(3, vec![(maybenot::constants::STATE_SIGNAL, Fs(1.0))]), (12, vec![(1, Fs(1.0))])], ..StateSpec::default() },
                    StateSpec::default(),
                ],
            };
            let listener = MachineSpec {
                states: vec![StateSpec { trans: vec![(12, vec![(1, Fs(1.0))])], ..StateSpec::default() }, StateSpec::default()],
                ..signaller.clone()
            };
            // the listener sits before, between or after the signallers
            let pos = v.trans[0].0 % (k + 1);
            let mut specs2: Vec<MachineSpec> = (0..k).map(|_| signaller.clone()).collect();
            specs2.insert(pos, listener);
            let ms = build_machines(&specs2).unwrap_or_else(|e| panic!("signal probe machines rejected: {e}"));
            let mut run = FwRun::new(&case, ms, None).map_err(|e| Failure { signature: "framework-new-rejects-validated-machines".into(), detail: e })?;
            let rec = run.call(&Call { clock: Clock::Add(1), events: vec![Ev::NormalSent] });
            for (i, m) in rec.snap.machines.iter().enumerate() {
                let want = if i == pos || k >= 2 { 1 } else { 0 };
                if m.state != want {
                    return fail(
                        "certain-signal-transition-not-taken",
                        format!("{k} machine(s) signal on one NormalSent, listener at index {pos}, every machine declares Signal -> 1 with probability 1: machine {i} is in state {}, expected {want}", m.state),
                    );
                }
            }
            obs.hit("signal_delivery_probe");
        }

        // 2e. once per worker process: a framework of 65 540 identical machines (more than any
        // 16-bit machine index can name); a completion naming one of the last machines moves that
        // machine and no other
        {
            static FLEET: std::sync::Once = std::sync::Once::new();
            let mut result: Result<(), Failure> = Ok(());
            let mut ran = false;
            FLEET.call_once(|| {
                ran = true;
                let spec = MachineSpec {
                    allowed_padding_packets: 0,
                    max_padding_frac: Fx(0.0),
                    allowed_blocked_microsec: 0,
                    max_blocking_frac: Fx(0.0),
                    states: vec![StateSpec { trans: vec![(4, vec![(1, Fs(1.0))]), (10, vec![(1, Fs(1.0))])], ..StateSpec::default() }, StateSpec::default()],
                };
                let one = spec.build().unwrap_or_else(|e| panic!("fleet machine rejected: {e}"));
                const FLEET_SIZE: usize = 65_540;
                let ms: Vec<Machine> = vec![one; FLEET_SIZE];
                let case = FwCase { machines: vec![], max_padding_frac: Fx(0.0), max_blocking_frac: Fx(0.0), start: 0, words: vec![], seed: 5, calls: vec![] };
                let mut run = match FwRun::new(&case, ms, None) {
                    Ok(r) => r,
                    Err(e) => {
                        result = Err(Failure { signature: "framework-new-rejects-validated-machines".into(), detail: e });
                        return;
                    }
                };
                for (ev, target) in [(Ev::PaddingSent(FLEET_SIZE - 2), FLEET_SIZE - 2), (Ev::TimerBegin(65_536), 65_536)] {
                    let rec = run.call(&Call { clock: Clock::Add(1), events: vec![ev] });
                    let moved: Vec<usize> = rec.snap.machines.iter().enumerate().filter(|(_, m)| m.state == 1).map(|(i, _)| i).collect();
                    let mut want: Vec<usize> = vec![FLEET_SIZE - 2];
                    if target != FLEET_SIZE - 2 {
                        want.push(target);
                    }
                    want.sort();
                    if moved != want {
                        result = fail(
                            "certain-transition-not-taken-or-taken-for-foreign-completion",
                            format!("{FLEET_SIZE} identical machines, after {ev:?}: machines in state 1 are {:?}, expected {want:?}", &moved[..moved.len().min(8)]),
                        );
                        return;
                    }
                }
            });
            result?;
            if ran {
                obs.hit("fleet_of_65540_machines");
            }
        }

        // 3. framework level: the sampled target is the dispatched one
        let specs = probe_machines(v);
        let machines = build_machines(&specs).unwrap_or_else(|e| panic!("probe machines rejected: {e}"));
        let mut probes: Vec<u32> = vec![0, N - 1];
        for b in &boundaries {
            for d in [-1i64, 0, 1] {
                let x = *b as i64 + d;
                if x >= 0 && x < N as i64 {
                    probes.push(x as u32);
                }
            }
        }
        let mut kk = 7u32;
        while kk < N {
            probes.push(kk);
            kk += 262_147;
        }
        for kk in probes {
            rng.0 = kk << 9;
            let expected = state.sample_state(Event::NormalRecv, &mut rng);
            let case = FwCase {
                machines: vec![],
                max_padding_frac: Fx(0.0),
                max_blocking_frac: Fx(0.0),
                start: 0,
                words: vec![crate::rng::word_for_k(kk) | 0x1234],
                seed: 1,
                calls: vec![],
            };
            let mut run = FwRun::new(&case, machines.clone(), None).map_err(|e| Failure {
                signature: "framework-new-rejects-validated-machines".into(),
                detail: e,
            })?;
            // an undeclared event first: must not move the machine nor consume the scripted word
            let r0 = run.call(&Call { clock: Clock::Add(1), events: vec![Ev::PaddingRecv] });
            if !r0.actions.is_empty() || r0.snap.machines[0].state != 0 {
                return fail("undeclared-event-moved-machine", format!("{:?}", r0.actions));
            }
            let rec = run.call(&Call { clock: Clock::Add(1), events: vec![Ev::NormalRecv] });
            let got_state = rec.snap.machines[0].state;
            let ok = match expected {
                None => rec.actions.is_empty() && got_state == 0,
                Some(t) if t == STATE_END => rec.actions.is_empty() && got_state == STATE_END,
                Some(t) if t == STATE_SIGNAL => {
                    got_state == 0
                        && rec.actions == vec![Act::Pad { m: 1, timeout: 999, bypass: false, replace: false }]
                }
                Some(t) => {
                    got_state == t
                        && rec.actions
                            == vec![Act::Pad { m: 0, timeout: 100 + t as u64, bypass: false, replace: false }]
                }
            };
            if !ok {
                return fail(
                    "dispatched-target-differs-from-sampled",
                    format!("word k={kk}: sample_state gives {expected:?}, framework moved to state {got_state} with actions {:?}", rec.actions),
                );
            }
        }
        obs.add("draw_outcomes_enumerated", N as u64);
        Ok(())
    }

    fn required_classes() -> Vec<&'static str> {
        vec!["dyadic_exact", "non_dyadic_tolerance", "sum_exactly_one", "pseudo_state_target", "vector_rejected_by_validation", "decoded_state_checked", "decoded_event_slots_checked", "delivery_probe", "signal_delivery_probe", "fleet_of_65540_machines"]
    }

    fn assumptions() -> Vec<&'static str> {
        vec![
            "the uniform draw of rand 0.8.8 maps a 32-bit word w to (w >> 9) * 2^-23 (self-tested at start-up); its 2^23 values are equally likely under a fair source",
            "for non-dyadic vectors the share may differ from p_i * 2^23 by one draw of resolution plus f32 summation error of the preceding addends (1 + ceil(i/2))",
            "the vectors themselves are sampled; only the draw is enumerated exhaustively",
        ]
    }
}
