//! C10 — non-interference: a machine's actions are the same alone and next to
//! any neighbours (metamorphic: combined run vs solo run on the projected history).

use maybenot::event::Event;
use maybenot::verif::VerifStep;
use proptest::prelude::*;

use crate::fw::*;
use crate::gen::*;
use crate::rt::*;
use crate::spec::*;

pub struct C10;

#[derive(Clone, Debug, serde::Serialize, serde::Deserialize)]
pub struct C10Case {
    pub case: FwCase,
    /// index of the subject machine in `case.machines`
    pub subject: usize,
}

impl Prop for C10 {
    type Case = C10Case;
    const ID: &'static str = "C10";
    const RULE: &'static str = "case = subject machine (probability-1 transitions, constant distributions, no SIGNAL target, arbitrary budgets and own fractions) at every position among 1..=4 neighbours (arbitrary machines without SIGNAL targets, probabilistic, sharing the RNG), framework fractions 0 x arbitrary histories with batches and ids over all machines and unknown ids. Oracle: subject's per-call actions in the combined run == in the solo run on the projected history (events naming neighbours re-addressed to an unknown id). Non-trivial: the subject returned >=1 action and in at least one call both the subject and a neighbour took an internal event (CounterZero/LimitReached). Distinct = hash of the case.";

    fn profiles(tier: Tier) -> Vec<Profile> {
        match tier {
            Tier::Quick => vec![prof("mixed", 120_000), prof("twins", 60_000), prof("capi", 6_000), prof("many_twins", 1_500)],
            Tier::Thorough => vec![prof("mixed", 1_000_000), prof("twins", 500_000), prof("capi", 80_000), prof("many_twins", 20_000)],
        }
    }

    fn strategy(profile: &str) -> BoxedStrategy<C10Case> {
        let mut subj = MachineParams {
            max_states: 4,
            p_action: 0.8,
            p_limit: 0.7,
            p_counter: 0.7,
            w_end: 1,
            w_signal: 0,
            prob_style: 1,
            ..MachineParams::default()
        };
        subj.p_trans = [0.4; 13];
        subj.p_trans[8] = 0.5;
        subj.p_trans[9] = 0.6;
        subj.p_trans[12] = 0.0;
        subj.p_trans[4] = 0.6;
        subj.p_trans[6] = 0.6;
        subj.p_trans[10] = 0.6;
        let mut neigh = subj.clone();
        neigh.prob_style = 0;
        let capi = profile == "capi";
        if capi {
            // everything deterministic: the subject alone and next to its neighbours, both through the C API
            neigh.prob_style = 1;
        }
        let hp = HistParams {
            min_calls: 2,
            max_calls: 40,
            max_batch: 6,
            ev_weights: [2, 2, 2, 3, 6, 2, 6, 3, 6, 3],
            ..HistParams::default()
        };
        let twins = profile == "twins" || profile == "many_twins";
        let ks = if profile == "many_twins" { 33usize..=100 } else { 1usize..=4 };
        ks
            .prop_flat_map(move |k| {
                let n = k + 1;
                (
                    machine(&subj),
                    proptest::collection::vec(machine(&neigh), k..=k),
                    0..n,
                    start_time(ClockProfile::Wild),
                    words(12),
                    any::<u64>(),
                    calls(n, &hp),
                )
            })
            .prop_map(move |(s, mut neighbours, pos, start, words, seed, calls)| {
                if twins {
                    // neighbours identical to the subject: they do the same things at the same time
                    for nb in neighbours.iter_mut().step_by(2) {
                        *nb = s.clone();
                    }
                }
                let mut machines = neighbours;
                machines.insert(pos, s);
                if capi {
                    machines = machines.into_iter().map(crate::props::c20::clock_independent).collect();
                }
                C10Case {
                    case: FwCase {
                        machines,
                        max_padding_frac: Fx(0.0),
                        max_blocking_frac: Fx(0.0),
                        start,
                        words,
                        seed: if capi { crate::props::CAPI_MARK } else { seed },
                        calls,
                    },
                    subject: pos,
                }
            })
            .boxed()
    }

    fn check(c: &C10Case, obs: &mut Obs) -> Result<(), Failure> {
        let case = &c.case;
        let subj = c.subject;
        let machines = build_machines(&case.machines)
            .unwrap_or_else(|e| panic!("generator produced a machine that Machine::new rejects: {e}"));
        let n = machines.len();
        assert!(!case.machines[subj].has_signal_target());
        let solo_case = FwCase {
            machines: vec![case.machines[subj].clone()],
            calls: case
                .calls
                .iter()
                .map(|cl| Call {
                    clock: cl.clock,
                    events: cl
                        .events
                        .iter()
                        .map(|e| match e.machine() {
                            Some(m) if m == subj => e.with_machine(0),
                            Some(_) => e.with_machine(7),
                            None => *e,
                        })
                        .collect(),
                })
                .collect(),
            ..case.clone()
        };
        if case.seed == crate::props::CAPI_MARK {
            crate::props::capi_pass(case, obs)?;
            crate::props::capi_pass(&solo_case, obs)?;
        }
        let solo_machine = vec![machines[subj].clone()];
        let mut comb = FwRun::new(case, machines, Some(50_000_000))
            .map_err(|e| Failure { signature: "framework-new-rejects-validated-machines".into(), detail: e })?;
        let mut solo = FwRun::new(&solo_case, solo_machine, Some(50_000_000))
            .map_err(|e| Failure { signature: "framework-new-rejects-validated-machines".into(), detail: e })?;
        let mut any_action = false;
        let mut shared_internal = false;
        for (ci, (cc, sc)) in case.calls.iter().zip(solo_case.calls.iter()).enumerate() {
            let rec = comb.call(cc);
            let srec = solo.call(sc);
            let a_comb: Vec<Act> = rec
                .actions
                .iter()
                .filter(|a| a.machine() == subj)
                .map(|a| a.with_machine(0))
                .collect();
            let a_solo: Vec<Act> = srec.actions.clone();
            if a_comb != a_solo {
                // classify for a stable signature
                let internal = |steps: &[VerifStep], who: usize, ev: Event| {
                    steps.iter().any(|s| matches!(s, VerifStep::Transition { machine, event, .. } if *machine == who && *event == ev))
                };
                let sig = if internal(&srec.steps, 0, Event::CounterZero) && !internal(&rec.steps, subj, Event::CounterZero) {
                    "subject-lost-counterzero-next-to-neighbours"
                } else if internal(&srec.steps, 0, Event::LimitReached) != internal(&rec.steps, subj, Event::LimitReached) {
                    "subject-limitreached-differs-next-to-neighbours"
                } else {
                    "subject-actions-differ-next-to-neighbours"
                };
                return fail(
                    sig,
                    format!(
                        "call {ci} ({:?}): subject at position {subj} among {n} machines returned {a_comb:?}, alone it returned {a_solo:?}",
                        cc.events
                    ),
                );
            }
            any_action |= !a_comb.is_empty();
            let is_internal = |e: &Event| matches!(e, Event::CounterZero | Event::LimitReached);
            let subj_int = rec.steps.iter().any(|s| matches!(s, VerifStep::Transition { machine, event, .. } if *machine == subj && is_internal(event)));
            let neigh_int = rec.steps.iter().any(|s| matches!(s, VerifStep::Transition { machine, event, .. } if *machine != subj && is_internal(event)));
            if subj_int && neigh_int {
                shared_internal = true;
            }
        }
        if any_action {
            obs.hit("subject_returned_action");
        }
        if shared_internal {
            obs.hit("subject_and_neighbour_internal_event_in_one_call");
        }
        if any_action && shared_internal {
            obs.nontrivial();
        }
        Ok(())
    }

    fn required_classes() -> Vec<&'static str> {
        vec!["subject_returned_action", "subject_and_neighbour_internal_event_in_one_call"]
    }

    fn assumptions() -> Vec<&'static str> {
        vec![
            "the subject has probability-1 transitions and constant distributions, so the position of its draws in the shared random stream cannot matter",
            "no machine has a SIGNAL target (signals are a sanctioned coupling); framework fractions are 0",
            "BlockingBegin naming a neighbour is re-addressed to an unknown id in the solo run, which keeps the (sanctioned) shared blocking state identical",
        ]
    }

    fn sample(c: &C10Case) -> serde_json::Value {
        serde_json::json!({"subject": c.subject, "case": crate::props::fw_sample(&c.case)})
    }
}
