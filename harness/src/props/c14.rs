//! C14 — without machines the simulator reproduces the input trace exactly.

use std::time::Instant;

use proptest::prelude::*;

use crate::rt::*;
use crate::simrun::*;
use crate::spec::*;

pub struct C14;

fn expected(c: &SimCase) -> [Vec<i128>; 4] {
    // [client sent, client recv, server sent, server recv], relative to the trace anchor
    let d = c.delay_ns as i128;
    let mut cs = vec![];
    let mut cr = vec![];
    let mut ss = vec![];
    let mut sr = vec![];
    for (t, sent) in &effective_trace(c) {
        let t = *t as i128;
        if *sent {
            cs.push(t);
            sr.push(t + d);
        } else {
            cr.push(t);
            ss.push(t - d);
        }
    }
    for v in [&mut cs, &mut cr, &mut ss, &mut sr] {
        v.sort();
    }
    [cs, cr, ss, sr]
}

fn observed(recs: &[Rec]) -> [Vec<i128>; 4] {
    let mut out: [Vec<i128>; 4] = Default::default();
    for r in recs {
        let i = match (r.client, r.ev) {
            (true, Ev::TunnelSent) => 0,
            (true, Ev::TunnelRecv) => 1,
            (false, Ev::TunnelSent) => 2,
            (false, Ev::TunnelRecv) => 3,
            _ => continue,
        };
        out[i].push(r.t);
    }
    out
}

impl Prop for C14 {
    type Case = SimCase;
    const ID: &'static str = "C14";
    const RULE: &'static str = "case = non-empty trace of 1..=120 lines (gaps from {0 (bursts, equal stamps in both directions), 1 ns, us, ms, the 100 ms window edges, seconds}; any direction mix incl. all-sent / all-received; one case in seven is jitter-free pacing of 1-4 equal-stamp packets at a step on or 1 ns beside the 100 ms / 1 s window edges for 12-30 steps) x network delay from {0, 1 ns, us, ms, 100 ms, 1 s} x queue built by parse_trace or by hand; each case is simulated through sim() (2 filter settings) and sim_advanced() (4 filter settings) with max_trace_length 0 or sufficient. Non-trivial: >=2 packets in both directions and (a burst of equal timestamps, or delay 0, or >=11 packets inside 100 ms). Distinct = hash of the case.";

    fn profiles(tier: Tier) -> Vec<Profile> {
        match tier {
            Tier::Quick => vec![prof("traces", 60_000), prof("huge", 4)],
            Tier::Thorough => vec![prof("traces", 1_000_000), prof("huge", 48)],
        }
    }

    fn strategy(profile: &str) -> BoxedStrategy<SimCase> {
        if profile == "huge" {
            // hundreds of thousands of packets (limits that only bite on very long inputs)
            return (trace(100), delay(), 2600u32..4200, seed())
                .prop_map(|(mut trace, delay_ns, repeat, seed)| {
                    while trace.len() < 100 {
                        let t = trace.last().map(|x| x.0 + 700_000).unwrap_or(0);
                        trace.push((t, trace.len() % 3 != 0));
                    }
                    SimCase {
                        trace,
                        delay_ns,
                        pps: None,
                        client: vec![],
                        server: vec![],
                        fracs: [Fx(0.0); 4],
                        seed,
                        max_trace_length: 0,
                        max_sim_iterations: 0,
                        continue_after: false,
                        only_client: false,
                        only_network: false,
                        hand_queue: false,
                        pad_lines: vec![],
                        line_style: 0,
                        repeat,
                        base_ns: 0,
                    }
                })
                .boxed();
        }
        // mostly relative timestamps; sometimes large absolute ones (beyond 2^53 ns, epoch nanoseconds)
        let base = prop_oneof![
            8 => Just(0u64),
            1 => proptest::sample::select(vec![(1u64 << 53) + 1, 1_700_000_000_123_456_789u64, (1u64 << 60) + 77, (1u64 << 53) - 3]),
        ];
        (prop_oneof![6 => trace(120), 1 => edge_trace(120)], delay(), any::<bool>(), any::<bool>(), seed(), text_extras(), base)
            .prop_map(|(trace, delay_ns, hand_queue, long, seed, (pad_lines, line_style), base_ns)| {
                let n = trace.len();
                SimCase {
                    trace,
                    delay_ns,
                    pps: None,
                    client: vec![],
                    server: vec![],
                    fracs: [Fx(0.0); 4],
                    seed,
                    max_trace_length: if long { 4 * n + 10 } else { 0 },
                    max_sim_iterations: 0,
                    continue_after: false,
                    only_client: false,
                    only_network: false,
                    hand_queue,
                    pad_lines,
                    line_style,
                    repeat: 0,
                    base_ns,
                }
            })
            .boxed()
    }

    fn check(c: &SimCase, obs: &mut Obs) -> Result<(), Failure> {
        let before = Instant::now();
        let (sq, known_anchor) = build_queue(c);
        let after = Instant::now();
        let exp = expected(c);
        if c.repeat > 1 {
            obs.hit("more_than_250000_packets");
        }
        if c.base_ns > (1u64 << 53) {
            obs.hit("timestamps_above_2_pow_53_ns");
        }
        // classification
        let sent = c.trace.iter().filter(|x| x.1).count();
        let recv = c.trace.len() - sent;
        let burst = c.trace.windows(2).any(|w| w[0].0 == w[1].0);
        let dense = c.trace.iter().enumerate().any(|(i, x)| {
            c.trace[i..].iter().take_while(|y| y.0 - x.0 <= 100_000_000).count() >= 11
        });
        if burst {
            obs.hit("burst_of_equal_timestamps");
        }
        if dense {
            obs.hit("eleven_packets_within_100ms");
        }
        if c.delay_ns == 0 {
            obs.hit("zero_delay");
        }
        if c.hand_queue {
            obs.hit("hand_built_queue");
        } else if !c.pad_lines.is_empty() {
            obs.hit("input_with_ignored_padding_lines");
        }
        if !c.hand_queue && c.line_style / 3 != 0 && c.repeat <= 1 && c.trace.len() >= 2 {
            obs.hit("input_lines_in_scrambled_order");
        }
        // one direction repeating at exactly 100 ms (an edge of the rate window) for more than a second
        for dir in [true, false] {
            let ts: Vec<u64> = c.trace.iter().filter(|x| x.1 == dir).map(|x| x.0).collect();
            let mut uniq = ts.clone();
            uniq.dedup();
            let mut run = 1;
            for w in uniq.windows(2) {
                run = if w[1] - w[0] == 100_000_000 { run + 1 } else { 1 };
                if run >= 12 {
                    obs.hit("steps_of_exactly_100ms_in_one_direction_for_over_a_second");
                    break;
                }
            }
        }
        // both directions busy for more than a second
        let span = c.trace.last().map(|x| x.0).unwrap_or(0);
        if span > 1_000_000_000 && sent >= 8 && recv >= 8 {
            obs.hit("sustained_two_way_traffic_over_a_second");
        }
        if sent >= 1 && recv >= 1 && c.trace.len() >= 2 && (burst || dense || c.delay_ns == 0) {
            obs.nontrivial();
        }

        let mut anchor: Option<Instant> = known_anchor;
        // (label, simple?, only_client, only_network)
        let variants: [(&str, bool, bool, bool); 6] = [
            ("sim unfiltered", true, false, false),
            ("sim network-only", true, false, true),
            ("sim_advanced unfiltered", false, false, false),
            ("sim_advanced network-only", false, false, true),
            ("sim_advanced client-only", false, true, false),
            ("sim_advanced client+network-only", false, true, true),
        ];
        for (label, simple, only_client, only_network) in variants {
            let mut cc = c.clone();
            cc.only_client = only_client;
            cc.only_network = only_network;
            if cc.max_trace_length > 0 {
                // sufficient for the selected filter too; every third case: "no limit" written as usize::MAX
                cc.max_trace_length = if c.seed % 3 == 0 { usize::MAX } else { 4 * effective_trace(c).len() + 10 };
                if cc.max_trace_length == usize::MAX {
                    obs.hit("max_trace_length_usize_max");
                }
            }
            let mut q = sq.clone();
            let events = if simple { run_simple(&cc, &mut q, &[], &[]) } else { run_advanced(&cc, &mut q, &[], &[]).events };
            if events.windows(2).any(|w| w[1].time < w[0].time) {
                return fail("trace-not-ordered-by-time", label.to_string());
            }
            // derive the anchor from the first packet of the trace that is visible in this output
            if anchor.is_none() {
                let first = events.iter().find(|e| {
                    e.client && matches!(e.event, maybenot::TriggerEvent::TunnelSent | maybenot::TriggerEvent::TunnelRecv)
                });
                if let Some(e) = first {
                    // the earliest client packet event corresponds to the earliest trace line
                    let t0 = c.trace.iter().map(|x| x.0).min().unwrap() + c.base_ns;
                    let a = e.time - std::time::Duration::from_nanos(t0);
                    if a < before || a > after {
                        return fail(
                            "trace-shifted-in-time",
                            format!("{label}: first client packet implies a trace origin outside the window in which parse_trace ran"),
                        );
                    }
                    anchor = Some(a);
                }
            }
            let Some(a) = anchor else {
                return fail("no-client-packet-in-output", label.to_string());
            };
            let rs = recs(&events, a);
            if rs.iter().any(|r| r.padding || matches!(r.ev, Ev::PaddingSent(_) | Ev::PaddingRecv | Ev::BlockingBegin(_) | Ev::BlockingEnd | Ev::TimerBegin(_) | Ev::TimerEnd(_))) {
                return fail("padding-or-machine-event-without-machines", label.to_string());
            }
            if only_network && rs.iter().any(|r| !matches!(r.ev, Ev::TunnelSent | Ev::TunnelRecv)) {
                return fail("non-packet-event-in-network-only-trace", label.to_string());
            }
            if only_client && rs.iter().any(|r| !r.client) {
                return fail("server-event-in-client-only-trace", label.to_string());
            }
            let got = observed(&rs);
            let names = ["client tunnel-sent", "client tunnel-received", "server tunnel-sent", "server tunnel-received"];
            for i in 0..4 {
                if only_client && i >= 2 {
                    continue;
                }
                if got[i] != exp[i] {
                    let k = got[i].iter().zip(exp[i].iter()).position(|(g, e)| g != e);
                    let sig = if got[i].len() != exp[i].len() { "packets-added-or-lost" } else { "packet-shifted-in-time" };
                    return fail(
                        sig,
                        format!(
                            "{label}: {} times differ from the trace (delay {} ns): got {} packets, expected {}; first difference at index {k:?}: got {:?} expected {:?}",
                            names[i], c.delay_ns, got[i].len(), exp[i].len(),
                            k.map(|k| got[i][k]), k.map(|k| exp[i][k])
                        ),
                    );
                }
            }
        }
        Ok(())
    }

    fn required_classes() -> Vec<&'static str> {
        vec!["burst_of_equal_timestamps", "eleven_packets_within_100ms", "zero_delay", "hand_built_queue", "sustained_two_way_traffic_over_a_second", "input_with_ignored_padding_lines", "more_than_250000_packets", "max_trace_length_usize_max", "input_lines_in_scrambled_order", "timestamps_above_2_pow_53_ns", "steps_of_exactly_100ms_in_one_direction_for_over_a_second"]
    }

    fn assumptions() -> Vec<&'static str> {
        vec![
            "parse_trace anchors the trace at an Instant::now() it does not expose: the anchor is derived from the first client packet of the output and must lie between two harness-side Instant::now() readings taken around parse_trace (used only to bracket the anchor, never as a timer); every other packet must agree with that one anchor to the nanosecond",
            "no explicit packets-per-second limit (the trace-derived default) and no integration delays, as the statement says",
        ]
    }

    fn sample(c: &SimCase) -> serde_json::Value {
        serde_json::json!({"trace": trace_text(&c.trace), "delay_ns": c.delay_ns, "hand_queue": c.hand_queue, "max_trace_length": c.max_trace_length})
    }
}
