//! C19 — seeded simulations are reproducible and total; filters are projections.

use proptest::prelude::*;
use proptest::sample::select;

use crate::props::c15::{sample_of, sim_case};
use crate::rt::*;
use crate::simrun::*;
use crate::spec::*;

pub struct C19;

impl Prop for C19 {
    type Case = SimCase;
    fn admissible(c: &SimCase) -> bool {
        crate::props::sim_admissible(c)
    }

    const ID: &'static str = "C19";
    const RULE: &'static str = "case = C15's domain plus packets-per-second limits from {none, 1, 2, 10, 1000, u32::MAX, 2^32, usize::MAX} and stop conditions (iteration bound and/or trace-length bound, continue-after flag). Each case is simulated unfiltered twice on clones of one queue, then with each of the three filter settings, then (length-bound variant) with a trace-length bound. Non-trivial: machines on both sides and the run produced >=1 padding packet and >=1 blocking or timer event. Distinct = hash of the case.";

    fn profiles(tier: Tier) -> Vec<Profile> {
        match tier {
            Tier::Quick => vec![prof("sim", 18_000), prof("pps", 9_000)],
            Tier::Thorough => vec![prof("sim", 250_000), prof("pps", 120_000)],
        }
    }

    fn strategy(profile: &str) -> BoxedStrategy<SimCase> {
        match profile {
            "sim" => (sim_case(50, 3, true, true), 0usize..400, 0u8..40)
                .prop_map(|(mut c, len, corner)| {
                    c.max_trace_length = if len < 200 { 0 } else { len };
                    // "no limit" written as an enormous bound
                    match corner {
                        0 => c.max_trace_length = usize::MAX,
                        1 => c.max_trace_length = usize::MAX / 2,
                        2 => c.max_trace_length = 1 << 50,
                        _ => {}
                    }
                    c
                })
                .boxed(),
            "pps" => (
                sim_case(40, 2, true, false),
                select(vec![1usize, 2, 3, 10, 100, 1000, u32::MAX as usize, 1usize << 32, (1usize << 32) + 1, 3usize << 32, usize::MAX]),
            )
                .prop_map(|(mut c, pps)| {
                    c.pps = Some(pps);
                    c
                })
                .boxed(),
            _ => panic!("unknown profile"),
        }
    }

    fn check(c: &SimCase, obs: &mut Obs) -> Result<(), Failure> {
        let (sq, _) = build_queue(c);
        let client = machines_of(&c.client);
        let server = machines_of(&c.server);
        // (a) reproducible
        let mut base = c.clone();
        base.only_client = false;
        base.only_network = false;
        let len_bound = base.max_trace_length;
        base.max_trace_length = 0;
        let a = run_advanced(&base, &mut sq.clone(), &client, &server).events;
        let b = run_advanced(&base, &mut sq.clone(), &client, &server).events;
        if a != b {
            let k = a.iter().zip(b.iter()).position(|(x, y)| x != y);
            return fail(
                "two-runs-with-the-same-seed-differ",
                format!("lengths {} and {}; first difference at {k:?}", a.len(), b.len()),
            );
        }
        if a.is_empty() {
            return fail("empty-output-for-non-empty-trace", String::new());
        }
        // (c) bounds and order
        if a.windows(2).any(|w| w[1].time < w[0].time) {
            return fail("trace-not-ordered-by-time", String::new());
        }
        if a.len() > base.max_sim_iterations {
            return fail("iteration-bound-exceeded", format!("{} events for max_sim_iterations {}", a.len(), base.max_sim_iterations));
        }
        // a second parse of the same text gives the same trace up to the anchor
        if !c.hand_queue && c.trace.len() <= 20 {
            let (sq2, _) = build_queue(c);
            let a2 = run_advanced(&base, &mut sq2.clone(), &client, &server).events;
            let r1 = recs(&a, a[0].time);
            let r2 = recs(&a2, a2.first().map(|e| e.time).unwrap_or(a[0].time));
            if r1 != r2 {
                return fail("re-parsed-trace-simulates-differently", String::new());
            }
            obs.hit("re_parsed");
        }
        // (b) filters are projections (same iteration bound, no length bound)
        for (oc, on) in [(true, false), (false, true), (true, true)] {
            let mut f = base.clone();
            f.only_client = oc;
            f.only_network = on;
            let got = run_advanced(&f, &mut sq.clone(), &client, &server).events;
            let want: Vec<_> = a
                .iter()
                .filter(|e| {
                    (!oc || e.client)
                        && (!on || matches!(e.event, maybenot::TriggerEvent::TunnelSent | maybenot::TriggerEvent::TunnelRecv))
                })
                .cloned()
                .collect();
            if got != want {
                let k = got.iter().zip(want.iter()).position(|(x, y)| x != y);
                return fail(
                    "filtered-trace-is-not-the-projection",
                    format!("only_client_events={oc} only_network_activity={on}: {} events, projection has {}; first difference at {k:?}", got.len(), want.len()),
                );
            }
        }
        // length bound: the trace is a prefix of the (filtered) unbounded one
        if len_bound > (1 << 40) {
            obs.hit("enormous_length_bound");
        }
        if len_bound > 0 {
            obs.hit("length_bound");
            for (oc, on) in [(false, false), (c.only_client, c.only_network)] {
                let mut f = base.clone();
                f.only_client = oc;
                f.only_network = on;
                f.max_trace_length = len_bound;
                let got = run_advanced(&f, &mut sq.clone(), &client, &server).events;
                if got.len() > len_bound {
                    return fail("trace-length-bound-exceeded", format!("{} events for max_trace_length {len_bound}", got.len()));
                }
                let want: Vec<_> = a
                    .iter()
                    .filter(|e| {
                        (!oc || e.client)
                            && (!on || matches!(e.event, maybenot::TriggerEvent::TunnelSent | maybenot::TriggerEvent::TunnelRecv))
                    })
                    .take(got.len())
                    .cloned()
                    .collect();
                if got != want {
                    return fail("length-bounded-trace-is-not-a-prefix", format!("only_client={oc} only_network={on}"));
                }
                if got.len() < len_bound && got.len() < want.len() {
                    return fail("length-bounded-trace-stopped-early", String::new());
                }
            }
        }
        let rs = recs(&a, a[0].time);
        let padding = rs.iter().any(|r| matches!(r.ev, Ev::TunnelSent) && r.padding);
        let blk_or_timer = rs.iter().any(|r| matches!(r.ev, Ev::BlockingBegin(_) | Ev::TimerBegin(_)));
        if padding {
            obs.hit("padding_packet");
        }
        if blk_or_timer {
            obs.hit("blocking_or_timer_event");
        }
        if c.pps.is_some() {
            obs.hit("explicit_pps");
        }
        if !c.client.is_empty() && !c.server.is_empty() && padding && blk_or_timer {
            obs.nontrivial();
        }
        Ok(())
    }

    fn required_classes() -> Vec<&'static str> {
        vec!["padding_packet", "blocking_or_timer_event", "explicit_pps", "length_bound", "enormous_length_bound", "re_parsed"]
    }

    fn assumptions() -> Vec<&'static str> {
        vec![
            "reproducibility is refuted only by twin runs in one process (an influence that is equal in both runs is invisible)",
            "the number of simulator iterations does not depend on the output filters, so with an iteration bound and no length bound each filtered trace must equal the projection of the unfiltered one",
            "SimEvent equality is the derived PartialEq (all fields, including the debug note)",
        ]
    }

    fn sample(c: &SimCase) -> serde_json::Value {
        sample_of(c)
    }
}
