//! C01 — the framework is total and does linear work per call.

use maybenot::verif::VerifStep;
use proptest::prelude::*;

use crate::fw::*;
use crate::gen::*;
use crate::rt::*;
use crate::spec::*;

pub struct C01;

pub fn params(profile: &str) -> (MachineParams, HistParams, usize) {
    let mut mp = MachineParams::default();
    let mut hp = HistParams {
        max_calls: 60,
        max_batch: 40,
        ..HistParams::default()
    };
    let mut max_words = 24;
    match profile {
        "const" => {}
        "wild" => {
            mp.dist = DistProfile::Wild;
            max_words = 0;
            hp.max_calls = 30;
            hp.max_batch = 12;
        }
        "counters" => {
            // saturating counters, CounterZero chains and limits
            mp.p_counter = 0.8;
            mp.p_limit = 0.7;
            mp.p_trans[8] = 0.7;
            mp.p_trans[9] = 0.8;
            mp.max_states = 4;
        }
        "signals" => {
            mp.w_signal = 6;
            mp.w_end = 2;
            mp.p_trans[12] = 0.8;
            mp.max_states = 3;
        }
        _ => panic!("unknown profile {profile}"),
    }
    (mp, hp, max_words)
}

impl Prop for C01 {
    type Case = FwCase;
    fn admissible(case: &FwCase) -> bool {
        crate::props::fw_admissible(case)
    }

    const ID: &'static str = "C01";
    const RULE: &'static str = "case = 0..=5 validated machines (all action kinds, counters, limits, pseudo-states; constant or all 11 distribution families) x fractions in [0,1]^2 x history of 1..=60 calls with batches of 0..=40 events, known and unknown machine ids, wild virtual-clock steps (0, tiny, huge, backwards, jumps) x scripted words + seeded stream. Non-trivial: the history returned >=1 action AND contains >=1 of {event naming a machine that does not exist, backwards clock step, internal event (LimitReached/CounterZero/Signal) in the step log, saturated counter}. Distinct = distinct hash of the whole case.";

    fn profiles(tier: Tier) -> Vec<Profile> {
        match tier {
            Tier::Quick => vec![
                prof("const", 64_000),
                prof("wild", 32_000),
                prof("counters", 32_000),
                prof("signals", 32_000),
                prof("candidates", 40_000),
                prof("many", 2_000),
                prof("capi", 8_000),
                prof("capi_long", 800),
            ],
            Tier::Thorough => vec![
                prof("const", 800_000),
                prof("wild", 400_000),
                prof("counters", 400_000),
                prof("signals", 400_000),
                prof("candidates", 400_000),
                prof("many", 30_000),
                prof("capi", 100_000),
                prof("capi_long", 10_000),
            ],
        }
    }

    fn strategy(profile: &str) -> BoxedStrategy<FwCase> {
        if profile == "candidates" {
            // machines with adversarial edits (as in C12): those that validation accepts must run
            let mp = MachineParams { max_states: 3, dist: DistProfile::Wild, p_trans: [0.4; 13], p_counter: 0.5, ..MachineParams::default() };
            let hp = HistParams { max_calls: 20, max_batch: 6, ..HistParams::default() };
            return (
                fw_case(1..=2, &mp, &hp, true, 0),
                proptest::collection::vec(crate::props::c12::mutation_strategy(), 1..=2),
            )
                .prop_map(|(mut c, muts)| {
                    let last = c.machines.len() - 1;
                    c.machines[last] = crate::props::c12::mutate(&c.machines[last], &muts);
                    c
                })
                .boxed();
        }
        if profile == "capi_long" {
            let hp = HistParams { min_calls: 2, max_calls: 12, max_batch: 8, ..HistParams::default() };
            return crate::props::capi_long_case(1..=4, |mp| { mp.p_action = 0.9; mp.p_counter = 0.3; mp.p_limit = 0.3; }, &hp);
        }
        if profile == "capi" {
            // totality for C callers: unknown and aliasing ids, empty and long batches, through the C API
            let hp = HistParams { max_calls: 30, max_batch: 12, ..HistParams::default() };
            return crate::props::capi_case(0..=5, |mp| { mp.p_counter = 0.5; mp.p_limit = 0.5; mp.w_signal = 2; mp.w_end = 2; }, &hp);
        }
        if profile == "many" {
            // more machines than a machine word has bits; signals, ends, counters and limits
            let mut mp = MachineParams { max_states: 2, w_signal: 3, w_end: 1, p_counter: 0.3, p_limit: 0.3, ..MachineParams::default() };
            mp.p_trans = [0.3; 13];
            mp.p_trans[12] = 0.6;
            let hp = HistParams { max_calls: 8, max_batch: 6, ..HistParams::default() };
            return fw_case(65..=140, &mp, &hp, true, 4);
        }
        let (mp, hp, w) = params(profile);
        fw_case(0..=5, &mp, &hp, true, w)
    }

    fn check(case: &FwCase, obs: &mut Obs) -> Result<(), Failure> {
        // a candidate that declares an empty transition list can only come out of the decoder:
        // it is built from its encoding (State::new would drop the empty list)
        let via_decoder = case.machines.iter().any(|m| m.states.iter().any(|st| st.trans.iter().any(|(_, l)| l.is_empty())));
        let built = if via_decoder {
            use std::str::FromStr;
            obs.hit("candidate_built_through_the_decoder");
            case.machines
                .iter()
                .map(|m| {
                    maybenot::Machine::from_str(&crate::mirror::v2_string(&crate::mirror::bincode_of(&crate::mirror::mmachine(m)))).map_err(|e| e.to_string())
                })
                .collect::<Result<Vec<_>, String>>()
        } else {
            build_machines(&case.machines)
        };
        let machines = match built {
            Ok(m) => m,
            Err(_) => {
                // only the 'candidates' profile proposes machines that validation may reject
                obs.hit("candidate_rejected_by_validation");
                return Ok(());
            }
        };
        let n = machines.len();
        if n > 64 {
            obs.hit("more_than_64_machines");
        }
        if case.seed == crate::props::CAPI_MARK {
            crate::props::capi_pass(case, obs)?;
        }
        let total_events: u64 = case.calls.iter().map(|c| c.events.len() as u64 + 1).sum();
        let budget = case.words.len() as u64 + 100_000 + 20_000 * total_events * (n as u64 + 1);
        let mut run = match FwRun::new(case, machines, Some(budget)) {
            Ok(r) => r,
            Err(e) => {
                return fail(
                    "framework-new-rejects-validated-machines",
                    format!("Framework::new returned Err({e}) for validated machines and fractions in [0,1]"),
                )
            }
        };
        let mut any_action = false;
        let mut unknown_id = false;
        let mut backwards = false;
        let mut internal = false;
        let mut saturated = false;
        let mut prev = case.start;
        for (ci, c) in case.calls.iter().enumerate() {
            let rec = run.call(c);
            if rec.now < prev {
                backwards = true;
            }
            prev = rec.now;
            let steps = rec
                .steps
                .iter()
                .filter(|s| matches!(s, VerifStep::Transition { .. }))
                .count();
            let bound = 4 * (c.events.len() + 1) * (n + 1);
            if steps > bound {
                return fail(
                    "work-bound-exceeded",
                    format!(
                        "call {ci}: {steps} machine steps for {} events and {n} machines (bound {bound})",
                        c.events.len()
                    ),
                );
            }
            any_action |= !rec.actions.is_empty();
            unknown_id |= c.events.iter().any(|e| e.machine().map(|m| m >= n).unwrap_or(false));
            internal |= rec.steps.iter().any(|s| {
                matches!(
                    s,
                    VerifStep::Transition { event, .. }
                        if matches!(event, maybenot::event::Event::LimitReached
                            | maybenot::event::Event::CounterZero
                            | maybenot::event::Event::Signal)
                )
            });
            saturated |= rec.snap.machines.iter().any(|m| m.ca == u64::MAX || m.cb == u64::MAX);
        }
        if any_action {
            obs.hit("returned_action");
        }
        if unknown_id {
            obs.hit("unknown_id");
        }
        if backwards {
            obs.hit("backwards_clock");
        }
        if internal {
            obs.hit("internal_event");
        }
        if saturated {
            obs.hit("saturated_counter");
        }
        if n == 0 {
            obs.hit("zero_machines");
        }
        if any_action && (unknown_id || backwards || internal || saturated) {
            obs.nontrivial();
        }
        // the same history on the default clock type (std::time::Instant), when every
        // virtual time fits: totality only (its one float division rounds differently)
        let mut t = case.start;
        let mut fits = t < (1u64 << 50);
        for c in &case.calls {
            t = c.clock.apply(t);
            fits &= t < (1u64 << 50);
        }
        if fits {
            let base = std::time::Instant::now();
            let at = |us: u64| base + std::time::Duration::from_micros(us);
            let machines = build_machines(&case.machines).expect("validated above");
            let rng = crate::rng::ScriptRng::new(&case.words, case.seed).with_budget(budget);
            let mut fw = maybenot::Framework::new(machines, case.max_padding_frac.0, case.max_blocking_frac.0, at(case.start), rng)
                .map_err(|e| Failure { signature: "framework-new-rejects-validated-machines".into(), detail: e.to_string() })?;
            let mut t = case.start;
            for c in &case.calls {
                t = c.clock.apply(t);
                let evs: Vec<_> = c.events.iter().map(|e| e.to_trigger()).collect();
                let _ = fw.trigger_events(&evs, at(t)).count();
            }
            obs.hit("std_instant_clock");
        }
        Ok(())
    }

    fn required_classes() -> Vec<&'static str> {
        vec![
            "more_than_64_machines",
            "candidate_built_through_the_decoder",
            "c_api_history",
            "returned_action",
            "unknown_id",
            "backwards_clock",
            "internal_event",
            "saturated_counter",
            "zero_machines",
            "std_instant_clock",
            "candidate_rejected_by_validation",
        ]
    }

    fn assumptions() -> Vec<&'static str> {
        vec![
            "maybenot is compiled with overflow-checks and debug-assertions on (harness release profile), so arithmetic overflow inside the framework panics",
            "the clock is the harness's virtual u64-microsecond Instant/Duration pair whose Duration += saturates (overflow of a caller-supplied duration type is the caller's)",
            "machines with sampled distributions are driven by seeded Xoshiro256** streams only; adversarial words inside samplers are C13's domain",
            "unbounded loops are detected through the random-word budget and the step log; a loop that neither draws randomness nor logs a step is caught only by the 60 s watchdog",
        ]
    }

    fn sample(case: &FwCase) -> serde_json::Value {
        crate::props::fw_sample(case)
    }
}
