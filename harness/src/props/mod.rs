pub mod c01;
pub mod c02;
pub mod c03;
pub mod c04;
pub mod c05;
pub mod c06;
pub mod c07;
pub mod c08;
pub mod c09;
pub mod c10;
pub mod c11;
pub mod c12;
pub mod c13;
pub mod c14;
pub mod c15;
pub mod c16;
pub mod c19;
pub mod c20;

use serde_json::{json, Value};

use crate::spec::FwCase;

/// A compact rendering of a framework case for evidence samples.
pub fn fw_sample(case: &FwCase) -> Value {
    let machines: Vec<Value> = case
        .machines
        .iter()
        .map(|m| match m.build() {
            Ok(b) => json!({"states": m.states.len(), "serialized": b.serialize()}),
            Err(_) => json!({"states": m.states.len(), "spec": m}),
        })
        .collect();
    let calls: Vec<String> = case
        .calls
        .iter()
        .take(12)
        .map(|c| format!("{:?} {:?}", c.clock, c.events))
        .collect();
    json!({
        "machines": machines,
        "max_padding_frac": case.max_padding_frac.0,
        "max_blocking_frac": case.max_blocking_frac.0,
        "start": case.start,
        "script_words": case.words.len(),
        "seed": case.seed,
        "calls_total": case.calls.len(),
        "first_calls": calls,
    })
}
