pub mod c01;
pub mod c02;
pub mod c03;
pub mod c04;
pub mod c05;
pub mod c06;
pub mod c07;
pub mod c08;
pub mod c09;
pub mod c10;
pub mod c11;
pub mod c12;
pub mod c13;
pub mod c14;
pub mod c15;
pub mod c16;
pub mod c19;
pub mod c20;

use serde_json::{json, Value};

use crate::spec::FwCase;

/// A compact rendering of a framework case for evidence samples.
pub fn fw_sample(case: &FwCase) -> Value {
    let machines: Vec<Value> = case
        .machines
        .iter()
        .map(|m| match m.build() {
            Ok(b) => json!({"states": m.states.len(), "serialized": b.serialize()}),
            Err(_) => json!({"states": m.states.len(), "spec": m}),
        })
        .collect();
    let calls: Vec<String> = case
        .calls
        .iter()
        .take(12)
        .map(|c| format!("{:?} {:?}", c.clock, c.events))
        .collect();
    json!({
        "machines": machines,
        "max_padding_frac": case.max_padding_frac.0,
        "max_blocking_frac": case.max_blocking_frac.0,
        "start": case.start,
        "script_words": case.words.len(),
        "seed": case.seed,
        "calls_total": case.calls.len(),
        "first_calls": calls,
    })
}

/// seed value that marks a framework case whose history is also run through the C API
pub const CAPI_MARK: u64 = 0xC04C_A910_0000_0001;

/// A framework case for the C-API pass: machines that are deterministic by construction (the C API
/// draws from its own random source and reads the clock itself), shaped by `tweak`.
pub fn capi_case(
    machines: std::ops::RangeInclusive<usize>,
    tweak: impl Fn(&mut crate::gen::MachineParams),
    hp: &crate::gen::HistParams,
) -> proptest::strategy::BoxedStrategy<FwCase> {
    use proptest::strategy::Strategy;
    let mut mp = c20::deterministic_params();
    tweak(&mut mp);
    mp.dist = crate::gen::DistProfile::Const;
    mp.prob_style = 1;
    (crate::gen::fw_case(machines, &mp, hp, true, 0), proptest::option::weighted(0.15, (proptest::prelude::any::<u8>(), proptest::prelude::any::<u8>())))
        .prop_map(|(mut c, dup)| {
            // the same machine listed twice (two identical lines for maybenot_start) is two machines
            if let (Some((i, j)), true) = (dup, c.machines.len() >= 2) {
                let n = c.machines.len();
                c.machines[j as usize % n] = c.machines[i as usize % n].clone();
            }
            c.machines = c.machines.into_iter().map(c20::clock_independent).collect();
            c.max_blocking_frac = crate::spec::Fx(0.0);
            c.seed = CAPI_MARK;
            c
        })
        .boxed()
}

/// Like `capi_case`, with the generated history folded into one very long first call (hundreds of
/// events: more than any chunk a wrapper might process at a time), followed by the history itself.
pub fn capi_long_case(
    machines: std::ops::RangeInclusive<usize>,
    tweak: impl Fn(&mut crate::gen::MachineParams),
    hp: &crate::gen::HistParams,
) -> proptest::strategy::BoxedStrategy<FwCase> {
    use proptest::strategy::Strategy;
    (capi_case(machines, tweak, hp), 65usize..700)
        .prop_map(|(mut c, len)| {
            let flat: Vec<crate::spec::Ev> = c.calls.iter().flat_map(|x| x.events.iter().copied()).collect();
            if !flat.is_empty() {
                let long: Vec<crate::spec::Ev> = flat.iter().cycle().take(len).copied().collect();
                c.calls.insert(0, crate::spec::Call { clock: crate::spec::Clock::Add(1), events: long });
            }
            c
        })
        .boxed()
}

/// The property at the C API: the history is run through maybenot_start / maybenot_on_events /
/// maybenot_stop (output buffer between canaries, count pre-set to garbage) and every call is
/// compared with the Rust framework, which the caller then holds to the property on the same
/// history. A difference means the guarantee does not carry over to C callers.
pub fn capi_pass(case: &FwCase, obs: &mut crate::rt::Obs) -> Result<(), crate::rt::Failure> {
    use crate::rt::Prop;
    let run = c20::Case::Run {
        machines: case.machines.clone(),
        padding_frac: case.max_padding_frac,
        batches: case.calls.iter().map(|c| c.events.clone()).collect(),
        trailing_newline: false,
    };
    let mut o2 = crate::rt::Obs::default();
    <c20::C20 as Prop>::check(&run, &mut o2)
        .map_err(|f| crate::rt::Failure { signature: format!("c-api: {}", f.signature), detail: f.detail })?;
    obs.hit("c_api_history");
    if case.calls.iter().any(|c| c.events.is_empty()) {
        obs.hit("c_api_empty_batch");
    }
    if o2.nontrivial {
        obs.nontrivial();
    }
    Ok(())
}

/// domain of the framework properties: validated machines, fractions in [0,1], bounded size
pub fn fw_admissible(case: &FwCase) -> bool {
    let frac = |f: f64| !f.is_nan() && (0.0..=1.0).contains(&f);
    // (only the generators' own cases carry the C-API mark: that pass needs deterministic machines)
    case.seed != CAPI_MARK
        && frac(case.max_padding_frac.0)
        && frac(case.max_blocking_frac.0)
        && case.machines.len() <= 8
        && case.calls.len() <= 400
        && case.calls.iter().all(|c| c.events.len() <= 64)
        && case.words.len() <= 256
        // scripted words go into samplers only for constant distributions (adversarial words inside
        // samplers are C13's domain, and meet its listed findings there)
        && (case.words.is_empty() || case.machines.iter().all(|m| m.all_dists_constant()))
        && case.machines.iter().all(|m| m.states.len() <= 16 && canonical(m))
}

/// The spec builds, and is the representation the generators produce (what reading the built
/// machine back gives): no out-of-range enum codes, duplicate or empty event entries.
pub fn canonical(m: &crate::spec::MachineSpec) -> bool {
    match m.build() {
        Ok(b) => crate::spec::MachineSpec::from_machine(&b) == *m,
        Err(_) => false,
    }
}

pub fn sim_admissible(c: &crate::simrun::SimCase) -> bool {
    let frac = |f: f64| !f.is_nan() && (0.0..=1.0).contains(&f);
    !c.trace.is_empty()
        && c.trace.len() <= 400
        && c.trace.windows(2).all(|w| w[0].0 <= w[1].0)
        && c.trace.iter().all(|x| x.0 <= 1_000_000_000_000)
        && c.delay_ns <= 2_000_000_000
        && c.pps.map(|p| p >= 1).unwrap_or(true)
        && c.fracs.iter().all(|f| frac(f.0))
        && (1..=3000).contains(&c.max_sim_iterations)
        && c.client.len() <= 4
        && c.server.len() <= 4
        && c.client.iter().chain(c.server.iter()).all(|m| m.states.len() <= 8 && canonical(m) && light(m))
}

/// sampled values stay in the microsecond-to-second range (the simulator adds them to Instants)
fn light(m: &crate::spec::MachineSpec) -> bool {
    use crate::spec::DistKind;
    let ok = |d: &crate::spec::DistSpec| {
        let bounded = d.max.0 > 0.0 && d.max.0 <= 1e9;
        match d.kind {
            DistKind::Uniform { low, high } => low.0 >= 0.0 && high.0 <= 1e9 && d.start.0.abs() <= 1e9 && (d.max.0 == 0.0 || bounded),
            _ => bounded && d.start.0.abs() <= 1e9,
        }
    };
    m.states.iter().all(|s| {
        s.action.map(|a| a.dists().iter().all(|d| ok(d))).unwrap_or(true)
            && s.counter_a.and_then(|c| c.dist).map(|d| ok(&d)).unwrap_or(true)
            && s.counter_b.and_then(|c| c.dist).map(|d| ok(&d)).unwrap_or(true)
    })
}
