//! C03 — blocking budgets: blocked time is recomputed from BlockingBegin /
//! BlockingEnd reports and call timestamps, in integer microseconds, and each
//! returned BlockOutgoing is judged against it exactly.

use maybenot::verif::VerifStep;
use proptest::prelude::*;
use proptest::sample::select;

use crate::exact::ratio_below;
use crate::fw::*;
use crate::gen::*;
use crate::rt::*;
use crate::spec::*;

pub struct C03;

fn frac_set(f: f64) -> bool {
    f > 0.0
}

/// exact "blocked share b/e is below f"; (0,0) counts as below, (b>0, 0) as not below
fn share_below(b: u128, e: u128, f: f64) -> bool {
    if e == 0 {
        return b == 0;
    }
    ratio_below(b, e, f)
}

fn c03_clock() -> BoxedStrategy<Clock> {
    prop_oneof![
        5 => Just(Clock::Add(0)),
        4 => Just(Clock::Add(1)),
        8 => (1u64..50).prop_map(Clock::Add),
        6 => (50u64..100_000).prop_map(Clock::Add),
        2 => ((1u64 << 30)..(1u64 << 44)).prop_map(Clock::Add),
        3 => (1u64..200).prop_map(Clock::Sub),
        1 => ((1u64 << 20)..(1u64 << 45)).prop_map(Clock::Sub),
        1 => Just(Clock::Set(0)),
    ]
    .boxed()
}

/// seed value that marks a case whose clock values are nanoseconds fed through std::time::Duration
pub const STD_MARK: u64 = 0xC03D_0000_5D00_0001;

/// The same budgets with the crate's own `std::time::Duration` arithmetic: clock values are
/// nanoseconds; the share is judged exactly on the nanosecond integers, with a relative margin of
/// 1e-9 for the two float conversions `as_secs_f64` performs (so only a clear excess is reported).
fn check_std(case: &FwCase, obs: &mut Obs) -> Result<(), Failure> {
    use crate::vtime::NInstant;
    use maybenot::{Framework, TriggerAction};
    let machines = build_machines(&case.machines)
        .unwrap_or_else(|e| panic!("generator produced a machine that Machine::new rejects: {e}"));
    let mut rng = crate::rng::ScriptRng::new(&case.words, case.seed);
    rng.budget = Some(50_000_000);
    let mut fw = Framework::new(machines, case.max_padding_frac.0, case.max_blocking_frac.0, NInstant(case.start), rng)
        .map_err(|e| Failure { signature: "framework-new-rejects-validated-machines".into(), detail: e.to_string() })?;
    let gfrac = case.max_blocking_frac.0;
    let start = case.start;
    let mut now = case.start;
    let mut open: Option<u64> = None;
    let mut closed_total: u128 = 0;
    for (ci, c) in case.calls.iter().enumerate() {
        now = c.clock.apply(now);
        match c.events[0] {
            Ev::BlockingBegin(_) => {
                if open.is_none() {
                    open = Some(now);
                }
            }
            Ev::BlockingEnd => {
                if let Some(t0) = open.take() {
                    closed_total += now.saturating_sub(t0) as u128;
                }
            }
            _ => {}
        }
        let blocked: u128 = closed_total + open.map(|t0| now.saturating_sub(t0) as u128).unwrap_or(0);
        let elapsed: u128 = now.saturating_sub(start) as u128;
        let evs = [c.events[0].to_trigger()];
        let acts: Vec<(usize, bool)> = fw
            .trigger_events(&evs, NInstant(now))
            .filter_map(|a| match a {
                TriggerAction::BlockOutgoing { machine, replace, .. } => Some((machine.into_raw(), *replace)),
                _ => None,
            })
            .collect();
        for (m, replace) in acts {
            obs.hit("std_duration_blocking_returned");
            let spec = &case.machines[m];
            if replace && open.is_some() {
                continue;
            }
            if blocked < spec.allowed_blocked_microsec as u128 * 1000 {
                continue;
            }
            let mfrac = spec.max_blocking_frac.0;
            // clearly not below: share >= f * (1 + 1e-9)
            let over = |f: f64| frac_set(f) && elapsed > 0 && !ratio_below(blocked, elapsed, f * (1.0 + 1e-9));
            let over_zero = |f: f64| frac_set(f) && elapsed == 0 && blocked > 0;
            if frac_set(mfrac) || frac_set(gfrac) {
                obs.hit("std_duration_decided_by_fraction");
                if elapsed < 100_000 {
                    obs.hit("std_duration_sub_100us_since_start");
                    obs.nontrivial();
                }
            }
            for (which, f) in [("machine", mfrac), ("framework", gfrac)] {
                if over(f) || over_zero(f) {
                    return fail(
                        format!("blocking-over-{which}-fraction (std::time::Duration)"),
                        format!(
                            "call {ci} ({:?}, now {now} ns): BlockOutgoing for machine {m} (replace {replace}, block open {}) with blocked {blocked} ns (allowed {} us), elapsed {elapsed} ns: share is not below {which} frac {f}",
                            c.events[0], open.is_some(), spec.allowed_blocked_microsec
                        ),
                    );
                }
            }
        }
    }
    Ok(())
}

impl Prop for C03 {
    type Case = FwCase;
    const ID: &'static str = "C03";
    const RULE: &'static str = "case = 1..=4 machines whose states mostly carry BlockOutgoing (all four bypass/replace combinations; allowed_blocked_microsec from {0,1,small,huge}; fractions dyadic/random/subnormal) x framework blocking fraction x history of <=200 single-event calls with arbitrary (unpaired, repeated, unknown-id) BlockingBegin/BlockingEnd placement x virtual clock steps {0,1,small,large,huge,backwards,before start} (all values < 2^50 so no duration type saturates); profile std_ns: the same through std::time::Duration with nanosecond clock values and steps of 0..3000 ns / 3 us..3 ms / backwards. Non-trivial: a blocking state entered while the recomputed blocked time is at or over the machine's microsecond budget with a machine or framework fraction set. Distinct = hash of the case.";

    fn profiles(tier: Tier) -> Vec<Profile> {
        match tier {
            Tier::Quick => vec![prof("block", 120_000), prof("dyadic", 60_000), prof("std_ns", 60_000)],
            Tier::Thorough => vec![prof("block", 1_600_000), prof("dyadic", 800_000), prof("std_ns", 800_000)],
        }
    }

    fn strategy(profile: &str) -> BoxedStrategy<FwCase> {
        let mut mp = MachineParams {
            max_states: 4,
            p_action: 0.9,
            kind_weights: [1, 1, 10, 1],
            p_limit: 0.15,
            p_counter: 0.1,
            w_end: 1,
            w_signal: 1,
            ..MachineParams::default()
        };
        mp.p_trans = [0.5; 13];
        let hp = HistParams {
            min_calls: 5,
            max_calls: 200,
            single: true,
            ev_weights: [2, 1, 1, 2, 1, 1, 8, 6, 1, 1],
            w_unknown_id: 3,
            ..HistParams::default()
        };
        let dyadic = profile == "dyadic";
        let std_ns = profile == "std_ns";
        (1usize..=4)
            .prop_flat_map(move |n| {
                // std_ns: the values are nanoseconds; small steps so that microsecond truncation would matter
                let clock = if std_ns {
                    prop_oneof![
                        2 => Just(Clock::Add(0)),
                        8 => (1u64..3000).prop_map(Clock::Add),
                        3 => (3000u64..3_000_000).prop_map(Clock::Add),
                        // whole seconds (no sub-second part) and whole milliseconds
                        2 => select(vec![1_000_000_000u64, 2_000_000_000, 3_000_000_000, 1_000_000, 60_000_000_000]).prop_map(Clock::Add),
                        1 => (1u64..2000).prop_map(Clock::Sub),
                        1 => select(vec![1_000_000_000u64, 1u64 << 40]).prop_map(Clock::Sub),
                    ]
                    .boxed()
                } else {
                    c03_clock()
                };
                let call = (clock, event(n, &hp)).prop_map(|(clock, e)| Call { clock, events: vec![e] });
                (
                    proptest::collection::vec(machine(&mp), n..=n),
                    prop_oneof![Just(0.0), select(vec![0.25, 0.5, 0.75, 1.0, 0.125]), 0.0f64..=1.0],
                    select(vec![0u64, 1, 1000, 1 << 20, 1 << 40]),
                    words(16),
                    any::<u64>(),
                    proptest::collection::vec(call, 5..=200),
                )
            })
            .prop_map(move |(mut machines, bf, start, words, seed, calls)| {
                if dyadic {
                    // equality cases: dyadic fractions and tiny budgets
                    for (i, m) in machines.iter_mut().enumerate() {
                        let f = [0.5, 0.25, 0.75, 1.0, 0.125][i % 5];
                        if m.max_blocking_frac.0 > 0.0 {
                            m.max_blocking_frac = Fx(f);
                        }
                        m.allowed_blocked_microsec = m.allowed_blocked_microsec.min(2);
                    }
                }
                if std_ns {
                    // tiny microsecond budgets, so that the fractions decide
                    for m in machines.iter_mut() {
                        m.allowed_blocked_microsec = m.allowed_blocked_microsec.min(1);
                    }
                }
                FwCase {
                    machines,
                    max_padding_frac: Fx(0.0),
                    max_blocking_frac: Fx(bf),
                    start,
                    words,
                    seed: if std_ns { STD_MARK } else { seed },
                    calls,
                }
            })
            .boxed()
    }

    fn check(case: &FwCase, obs: &mut Obs) -> Result<(), Failure> {
        if case.seed == STD_MARK {
            return check_std(case, obs);
        }
        let machines = build_machines(&case.machines)
            .unwrap_or_else(|e| panic!("generator produced a machine that Machine::new rejects: {e}"));
        let n = machines.len();
        let mut run = FwRun::new(case, machines, Some(50_000_000))
            .map_err(|e| Failure { signature: "framework-new-rejects-validated-machines".into(), detail: e })?;
        let gfrac = case.max_blocking_frac.0;
        let start = case.start;
        let mut now = case.start;
        // recomputed from reports only
        let mut open: Option<u64> = None;
        let mut closed_total: u128 = 0;
        let mut nt = false;
        for (ci, c) in case.calls.iter().enumerate() {
            assert!(c.events.len() == 1, "C03 is stated for single-event calls");
            let prev = now;
            now = c.clock.apply(now);
            assert!(now < (1u64 << 53), "clock generator must stay below 2^53");
            match c.events[0] {
                Ev::BlockingBegin(_) => {
                    if open.is_none() {
                        open = Some(now);
                    }
                }
                Ev::BlockingEnd => {
                    if let Some(t0) = open.take() {
                        closed_total += now.saturating_sub(t0) as u128;
                    }
                }
                _ => {}
            }
            let blocked: u128 = closed_total + open.map(|t0| now.saturating_sub(t0) as u128).unwrap_or(0);
            let elapsed: u128 = now.saturating_sub(start) as u128;
            let rec = run.call(c);
            for s in &rec.steps {
                if let VerifStep::Target { machine, target: Some(t) } = s {
                    let m = *machine;
                    if *t < case.machines[m].states.len() {
                        if let Some(ActionSpec::Block { replace, .. }) = case.machines[m].states[*t].action {
                            let spec = &case.machines[m];
                            if blocked >= spec.allowed_blocked_microsec as u128
                                && (frac_set(spec.max_blocking_frac.0) || frac_set(gfrac))
                                && !(replace && open.is_some())
                            {
                                nt = true;
                                obs.hit("over_budget_entry");
                                if now < prev && open.is_some() {
                                    obs.hit("backwards_step_while_block_open");
                                }
                                if elapsed > 0 {
                                    for f in [spec.max_blocking_frac.0, gfrac] {
                                        if frac_set(f)
                                            && !ratio_below(blocked, elapsed, f)
                                            && ratio_below(blocked.saturating_sub(1), elapsed, f)
                                        {
                                            obs.hit("at_or_next_to_equality");
                                        }
                                    }
                                }
                            }
                        }
                    }
                }
            }
            for a in &rec.actions {
                let Act::Block { m, replace, .. } = *a else { continue };
                obs.hit("blocking_returned");
                let spec = &case.machines[m];
                if replace && open.is_some() {
                    obs.hit("replace_while_active");
                    continue;
                }
                if blocked < spec.allowed_blocked_microsec as u128 {
                    obs.hit("within_microsecond_budget");
                    continue;
                }
                let mfrac = spec.max_blocking_frac.0;
                let m_ok = !frac_set(mfrac) || share_below(blocked, elapsed, mfrac);
                let g_ok = !frac_set(gfrac) || share_below(blocked, elapsed, gfrac);
                if frac_set(mfrac) || frac_set(gfrac) {
                    obs.hit("decided_by_fraction");
                }
                if !(m_ok && g_ok) {
                    let which = if !m_ok { "machine" } else { "framework" };
                    return fail(
                        format!("blocking-over-{which}-fraction"),
                        format!(
                            "call {ci} ({:?}, now {now}): BlockOutgoing for machine {m} (replace {replace}, block open {}) with blocked {blocked} us (allowed {}), elapsed {elapsed} us: share is not below machine frac {mfrac} / framework frac {gfrac}",
                            c.events[0], open.is_some(), spec.allowed_blocked_microsec
                        ),
                    );
                }
            }
            let _ = n;
        }
        if nt {
            obs.nontrivial();
        }
        Ok(())
    }

    fn required_classes() -> Vec<&'static str> {
        vec![
            "over_budget_entry",
            "decided_by_fraction",
            "replace_while_active",
            "within_microsecond_budget",
            "backwards_step_while_block_open",
            "at_or_next_to_equality",
            "std_duration_decided_by_fraction",
            "std_duration_sub_100us_since_start",
        ]
    }

    fn assumptions() -> Vec<&'static str> {
        vec![
            "virtual clock in whole microseconds with values < 2^50, so blocked/elapsed times convert to f64 exactly and the framework's one division is the only rounding; it can only err towards denying, so the exact oracle cannot raise a false alarm",
            "every machine starts with the framework, so the machine's and the framework's blocked time coincide (blocking is global)",
            "a fraction limit is 'set' when it is > 0",
            "profile std_ns: a nanosecond virtual clock whose duration type is std::time::Duration (the crate's own Duration implementation); its as_secs_f64 conversions round twice, so only a share >= limit * (1 + 1e-9) is reported",
        ]
    }

    fn sample(case: &FwCase) -> serde_json::Value {
        crate::props::fw_sample(case)
    }
}
