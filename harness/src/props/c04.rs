//! C04 — output contract: at most one well-formed action per machine per call.

use maybenot::constants::STATE_END;
use maybenot::verif::VerifStep;
use proptest::prelude::*;

use crate::fw::*;
use crate::gen::*;
use crate::rt::*;
use crate::spec::*;

pub struct C04;

const DAY: u64 = 86_400_000_000;

/// Does `act` have exactly the kind and flags of `spec`?
pub fn matches_spec(act: &Act, spec: &ActionSpec) -> bool {
    match (act, spec) {
        (Act::Cancel { timer, .. }, ActionSpec::Cancel { timer: t }) => timer == t,
        (
            Act::Pad { bypass, replace, .. },
            ActionSpec::Pad { bypass: b, replace: r, .. },
        ) => bypass == b && replace == r,
        (
            Act::Block { bypass, replace, .. },
            ActionSpec::Block { bypass: b, replace: r, .. },
        ) => bypass == b && replace == r,
        (Act::Timer { replace, .. }, ActionSpec::Timer { replace: r, .. }) => replace == r,
        _ => false,
    }
}

use crate::props::CAPI_MARK;

impl Prop for C04 {
    type Case = FwCase;
    fn admissible(case: &FwCase) -> bool {
        // the C-API pass needs machines that are deterministic by construction (its random source
        // is its own): only the generator's own "capi" cases carry the mark
        case.seed != CAPI_MARK && crate::props::fw_admissible(case)
    }

    const ID: &'static str = "C04";
    const RULE: &'static str = "case = 0..=5 validated machines x fractions x history with batches of 0..=40 events (profiles: constant dists with scripted words; all 11 families; unbounded/heavy-tailed/huge dists on timeouts and durations; 'capi': deterministic machines whose history is additionally run through the C API with a canary-guarded buffer of num_machines entries and a garbage-initialised count, every call incl. empty ones compared with the Rust framework). Non-trivial: some call returned >=2 actions, or a machine was scheduled more than once within one call (step log), or a returned timeout/duration was clamped to exactly 24 h, or a machine that had reached END was addressed by a later event. Distinct = distinct hash of the whole case.";

    fn profiles(tier: Tier) -> Vec<Profile> {
        match tier {
            Tier::Quick => vec![prof("const", 60_000), prof("wild", 30_000), prof("huge", 42_000), prof("end", 30_000), prof("capi", 12_000), prof("capi_long", 1_500), prof("many", 2_000)],
            Tier::Thorough => vec![prof("const", 800_000), prof("wild", 400_000), prof("huge", 500_000), prof("end", 300_000), prof("capi", 150_000), prof("capi_long", 20_000), prof("many", 30_000)],
        }
    }

    fn strategy(profile: &str) -> BoxedStrategy<FwCase> {
        let mut mp = MachineParams::default();
        let mut hp = HistParams { max_calls: 40, max_batch: 40, ..HistParams::default() };
        let mut w = 24;
        match profile {
            "const" => {}
            "wild" => {
                mp.dist = DistProfile::Wild;
                w = 0;
                hp.max_batch = 12;
            }
            "huge" => {
                mp.dist = DistProfile::Huge;
                mp.p_action = 0.9;
                mp.kind_weights = [0, 3, 3, 3];
                mp.p_limit = 0.1;
                mp.p_counter = 0.1;
                w = 0;
                hp.max_batch = 8;
                hp.max_calls = 25;
            }
            "end" => {
                // machines that end: through ordinary events, Signal, LimitReached and CounterZero chains
                mp.w_end = 5;
                mp.w_signal = 3;
                mp.max_states = 3;
                mp.p_trans[12] = 0.7;
                mp.p_trans[9] = 0.7;
                mp.p_trans[8] = 0.5;
                mp.p_counter = 0.6;
                mp.p_limit = 0.5;
            }
            "many" => {
                mp.max_states = 2;
                mp.w_signal = 3;
                mp.w_end = 2;
                mp.p_trans = [0.3; 13];
                mp.p_trans[12] = 0.6;
                let hp = HistParams { max_calls: 8, max_batch: 6, ..HistParams::default() };
                return fw_case(65..=140, &mp, &hp, true, 4);
            }
            "capi_long" => {
                // one call with hundreds of events: more than any chunk a C wrapper might process at a time
                let mp = crate::props::c20::deterministic_params();
                let hp = HistParams { min_calls: 2, max_calls: 12, max_batch: 8, ..HistParams::default() };
                return (fw_case(1..=4, &mp, &hp, true, 0), 65usize..700)
                    .prop_map(|(mut c, len)| {
                        // the generated history folded into one long call, followed by the history itself
                        let flat: Vec<Ev> = c.calls.iter().flat_map(|x| x.events.iter().copied()).collect();
                        if !flat.is_empty() {
                            let long: Vec<Ev> = flat.iter().cycle().take(len).copied().collect();
                            c.calls.insert(0, Call { clock: Clock::Add(1), events: long });
                        }
                        c.machines = c.machines.into_iter().map(crate::props::c20::clock_independent).collect();
                        c.max_blocking_frac = Fx(0.0);
                        c.seed = CAPI_MARK;
                        c
                    })
                    .boxed();
            }
            "capi" => {
                // the same contract at the C API, whose caller buffer is sized num_machines:
                // deterministic machines (the C API draws from its own random source)
                let hp = HistParams { max_calls: 30, max_batch: 8, ..HistParams::default() };
                return crate::props::capi_case(0..=6, |_| {}, &hp);
            }
            _ => panic!("unknown profile"),
        }
        fw_case(0..=5, &mp, &hp, true, w)
    }

    fn check(case: &FwCase, obs: &mut Obs) -> Result<(), Failure> {
        if case.seed == CAPI_MARK {
            crate::props::capi_pass(case, obs)?;
        }
        let machines = build_machines(&case.machines)
            .unwrap_or_else(|e| panic!("generator produced a machine that Machine::new rejects: {e}"));
        let n = machines.len();
        if n > 64 {
            obs.hit("more_than_64_machines");
        }
        let mut run = FwRun::new(case, machines, Some(50_000_000))
            .map_err(|e| Failure { signature: "framework-new-rejects-validated-machines".into(), detail: e })?;
        let mut ended = vec![false; n];
        let mut nt = false;
        for (ci, c) in case.calls.iter().enumerate() {
            let rec = run.call(c);
            if n == 0 && !rec.actions.is_empty() {
                return fail("action-without-machines", format!("call {ci}: {:?}", rec.actions));
            }
            let mut seen = vec![false; n];
            for a in &rec.actions {
                let m = a.machine();
                if m >= n {
                    return fail("action-names-unknown-machine", format!("call {ci}: {a:?} with {n} machines"));
                }
                if seen[m] {
                    return fail("two-actions-for-one-machine", format!("call {ci}: {:?}", rec.actions));
                }
                seen[m] = true;
                if !case.machines[m]
                    .states
                    .iter()
                    .any(|s| s.action.map(|sp| matches_spec(a, &sp)).unwrap_or(false))
                {
                    return fail(
                        "action-not-defined-by-machine",
                        format!("call {ci}: {a:?} has kind/flags that no state of machine {m} defines"),
                    );
                }
                let (t, d) = match *a {
                    Act::Pad { timeout, .. } => (timeout, 0),
                    Act::Block { timeout, duration, .. } => (timeout, duration),
                    Act::Timer { duration, .. } => (0, duration),
                    Act::Cancel { .. } => (0, 0),
                };
                if t > DAY || d > DAY {
                    return fail("timeout-or-duration-above-24h", format!("call {ci}: {a:?}"));
                }
                if t == DAY || d == DAY {
                    obs.hit("clamped_to_24h");
                    nt = true;
                }
                if ended[m] {
                    return fail(
                        "action-after-end",
                        format!("call {ci}: {a:?} although machine {m} had reached its end state in an earlier call"),
                    );
                }
            }
            if rec.actions.len() >= 2 {
                obs.hit("two_or_more_actions");
                nt = true;
            }
            let mut sched = vec![0u32; n];
            for s in &rec.steps {
                if let VerifStep::Schedule { machine, .. } = s {
                    sched[*machine] += 1;
                }
            }
            if sched.iter().any(|c| *c > 1) {
                obs.hit("rescheduled_within_call");
                nt = true;
            }
            for (m, e) in ended.iter().enumerate() {
                if *e {
                    if rec.snap.machines[m].state != STATE_END {
                        return fail("machine-left-end-state", format!("call {ci}: machine {m}"));
                    }
                    if c.events.iter().any(|ev| ev.machine() == Some(m)) {
                        obs.hit("event_for_ended_machine");
                        nt = true;
                    }
                }
            }
            for m in 0..n {
                if rec.snap.machines[m].state == STATE_END {
                    ended[m] = true;
                }
            }
            // the end state may also be reached (and must then be kept) in the middle of a call
            for s in &rec.steps {
                if let VerifStep::Target { machine, target: Some(t) } = s {
                    if *t == STATE_END {
                        if !ended[*machine] && rec.snap.machines[*machine].state != STATE_END {
                            return fail(
                                "machine-left-end-state",
                                format!("call {ci}: machine {machine} transitioned to its end state during the call but is in state {} afterwards", rec.snap.machines[*machine].state),
                            );
                        }
                        ended[*machine] = true;
                    }
                }
            }
        }
        if n == 0 {
            obs.hit("zero_machines");
        }
        if nt {
            obs.nontrivial();
        }
        Ok(())
    }

    fn required_classes() -> Vec<&'static str> {
        vec!["clamped_to_24h", "two_or_more_actions", "rescheduled_within_call", "event_for_ended_machine", "zero_machines", "c_api_history", "c_api_empty_batch", "more_than_64_machines"]
    }

    fn assumptions() -> Vec<&'static str> {
        vec![
            "END status is read from the verif hook's snapshot after each call",
            "the C API draws from its own random source, so its pass uses machines that are deterministic by construction (probability-1 transitions, constant distributions, no wall-clock dependent limits) and compares every call with the Rust framework on the same history",
            "durations are the harness's virtual u64-microsecond type, so the 24 h bound is checked on exactly the value Duration::from_micros received",
        ]
    }

    fn sample(case: &FwCase) -> serde_json::Value {
        crate::props::fw_sample(case)
    }
}
