//! Driving the real framework with generated inputs: builds
//! `Framework<Vec<Machine>, ScriptRng, VInstant>` from an `FwCase` and records,
//! per call, the returned actions, the hook's step log and a state snapshot.

use maybenot::verif::{VerifSignal, VerifStep};
use maybenot::{Framework, Machine, TriggerAction, TriggerEvent};

use crate::rng::ScriptRng;
use crate::spec::*;
use crate::vtime::{VDur, VInstant};

pub type Fw = Framework<Vec<Machine>, ScriptRng, VInstant>;

#[derive(Clone, Debug, PartialEq, Eq)]
pub struct MSnap {
    pub state: usize,
    pub limit: u64,
    pub padding_sent: u64,
    pub normal_sent: u64,
    pub blocking_us: u64,
    pub ca: u64,
    pub cb: u64,
}

#[derive(Clone, Debug, PartialEq, Eq)]
pub struct Snap {
    pub machines: Vec<MSnap>,
    pub normal: u64,
    pub padding: u64,
    pub blocking_us: u64,
    pub blocking_started: u64,
    pub blocking_active: bool,
    pub signal_pending: VerifSignal,
}

pub fn snap(fw: &Fw) -> Snap {
    let s = fw.verif_snapshot();
    Snap {
        machines: s
            .machines
            .iter()
            .map(|m| MSnap {
                state: m.current_state,
                limit: m.state_limit,
                padding_sent: m.padding_sent,
                normal_sent: m.normal_sent,
                blocking_us: m.blocking_duration.0,
                ca: m.counter_a,
                cb: m.counter_b,
            })
            .collect(),
        normal: s.normal_sent_packets,
        padding: s.padding_sent_packets,
        blocking_us: s.blocking_duration.0,
        blocking_started: s.blocking_started.0,
        blocking_active: s.blocking_active,
        signal_pending: s.signal_pending,
    }
}

pub fn conv_action(a: &TriggerAction<VInstant>) -> Act {
    match *a {
        TriggerAction::Cancel { machine, timer } => Act::Cancel {
            m: machine.into_raw(),
            timer: timer_idx(timer),
        },
        TriggerAction::SendPadding {
            timeout,
            bypass,
            replace,
            machine,
        } => Act::Pad {
            m: machine.into_raw(),
            timeout: timeout.0,
            bypass,
            replace,
        },
        TriggerAction::BlockOutgoing {
            timeout,
            duration,
            bypass,
            replace,
            machine,
        } => Act::Block {
            m: machine.into_raw(),
            timeout: timeout.0,
            duration: duration.0,
            bypass,
            replace,
        },
        TriggerAction::UpdateTimer {
            duration,
            replace,
            machine,
        } => Act::Timer {
            m: machine.into_raw(),
            duration: duration.0,
            replace,
        },
    }
}

pub fn build_machines(specs: &[MachineSpec]) -> Result<Vec<Machine>, String> {
    specs
        .iter()
        .map(|s| s.build().map_err(|e| e.to_string()))
        .collect()
}

/// The record of one call.
#[derive(Clone, Debug)]
pub struct CallRec {
    pub now: u64,
    pub events: Vec<Ev>,
    pub actions: Vec<Act>,
    pub steps: Vec<VerifStep>,
    pub snap: Snap,
}

pub struct FwRun {
    pub fw: Fw,
    pub now: u64,
    pub n_machines: usize,
}

impl FwRun {
    pub fn new(case: &FwCase, machines: Vec<Machine>, budget: Option<u64>) -> Result<Self, String> {
        let mut rng = ScriptRng::new(&case.words, case.seed);
        rng.budget = budget;
        let n = machines.len();
        let fw = Framework::new(
            machines,
            case.max_padding_frac.0,
            case.max_blocking_frac.0,
            VInstant(case.start),
            rng,
        )
        .map_err(|e| e.to_string())?;
        Ok(FwRun {
            fw,
            now: case.start,
            n_machines: n,
        })
    }

    pub fn call(&mut self, c: &Call) -> CallRec {
        self.now = c.clock.apply(self.now);
        let evs: Vec<TriggerEvent> = c.events.iter().map(|e| e.to_trigger()).collect();
        let actions: Vec<Act> = self
            .fw
            .trigger_events(&evs, VInstant(self.now))
            .map(conv_action)
            .collect();
        CallRec {
            now: self.now,
            events: c.events.clone(),
            actions,
            steps: self.fw.verif_steps().to_vec(),
            snap: snap(&self.fw),
        }
    }

    /// like `call`, without copying the log and the snapshot
    pub fn call_actions(&mut self, c: &Call) -> Vec<Act> {
        self.now = c.clock.apply(self.now);
        let evs: Vec<TriggerEvent> = c.events.iter().map(|e| e.to_trigger()).collect();
        self.fw
            .trigger_events(&evs, VInstant(self.now))
            .map(conv_action)
            .collect()
    }
}

#[allow(dead_code)]
fn _assert_types(_: VDur) {}
