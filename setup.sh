#!/bin/bash
# MANIFEST.setup_cmd: offline build of the harness from files on disk only.
set -e
cd "$(dirname "$0")"
export CARGO_NET_OFFLINE=true
mkdir -p work evidence
( cd harness && cargo build --release --offline )
