#!/usr/bin/env python3
"""Automatic mutation sweep (complements the hand-written mutants of tools/mutants.py and the
independently seeded changes): small syntactic changes to the non-test code of /repo, one at a
time, in scratch worktrees under /var/tmp/amut. A mutant counts only if it still compiles and the
repository's own test suite still passes with it; for those, the quick tier of the checks that look
at the mutated file is run and must report a violation.

usage: tools/automut.py [--jobs N] [--per-file K] [--seed S] [--list] [file-substring ...]
Results: tools/automut_result.json (one entry per mutant: file, line, operator, before/after, repo
tests, per-check exit codes). Survivors are the entries with tests == "pass" and no check exit 1.
"""
import hashlib, json, os, random, re, shutil, subprocess, sys, threading, time, concurrent.futures as cf

ROOT = os.path.dirname(os.path.dirname(os.path.abspath(__file__)))
GIT = threading.Lock()
FWC = ["C01", "C02", "C03", "C04", "C05", "C06", "C07", "C08", "C09", "C10", "C20", "C12"]
MC = ["C11", "C12", "C13", "C06", "C05", "C01", "C04"]
SIMC = ["C14", "C15", "C16", "C17", "C18", "C19"]
FILES = {
    "crates/maybenot/src/framework.rs": FWC,
    "crates/maybenot/src/machine.rs": MC,
    "crates/maybenot/src/state.rs": MC,
    "crates/maybenot/src/dist.rs": MC,
    "crates/maybenot/src/counter.rs": ["C08", "C12", "C11", "C05"],
    "crates/maybenot/src/action.rs": ["C12", "C11", "C04", "C05", "C13", "C07"],
    "crates/maybenot/src/event.rs": ["C05", "C06", "C11", "C20"] + SIMC,
    "crates/maybenot-simulator/src/lib.rs": SIMC,
    "crates/maybenot-simulator/src/queue.rs": SIMC,
    "crates/maybenot-simulator/src/queue_event.rs": SIMC,
    "crates/maybenot-simulator/src/queue_peek.rs": SIMC,
    "crates/maybenot-simulator/src/network.rs": SIMC,
    "crates/maybenot-ffi/src/ffi.rs": ["C20", "C04"],
    "crates/maybenot-ffi/src/lib.rs": ["C20", "C04"],
}

SKIP_LINE = re.compile(r"^\s*(//|#\[|use |pub use |mod |pub mod |\}|\{|$)|debug!|trace!|info!|warn!|write!\(|writeln!\(|format!\(|panic!\(|assert|unreachable!|verif|fn fmt|derive|Display|#!\[")

OPS = [
    ("rel", r" <= ", " < "), ("rel", r" >= ", " > "), ("rel", r" < ", " <= "), ("rel", r" > ", " >= "),
    ("eq", r" == ", " != "), ("eq", r" != ", " == "),
    ("logic", r" && ", " || "), ("logic", r" \|\| ", " && "),
    ("arith", r" \+ ", " - "), ("arith", r" - ", " + "), ("arith", r" \+= ", " -= "), ("arith", r" -= ", " += "), ("arith", r" \* ", " / "),
    ("bool", r"\btrue\b", "false"), ("bool", r"\bfalse\b", "true"),
    ("sat", r"saturating_sub\(", "wrapping_sub("), ("sat", r"saturating_add\(", "wrapping_add("),
    ("minmax", r"\.min\(", ".max("), ("minmax", r"\.max\(", ".min("),
    ("neg", r"if !", "if "), ("const", r"\b1\b", "2"), ("const", r"\b0\b", "1"),
    ("cond", r"\bif (?!let\b)([^{]+) \{$", "if false {"), ("cond", r"\bif (?!let\b)([^{]+) \{$", "if true {"),
]


def candidates(path):
    src = open(f"/repo/{path}").read().split("\n")
    out = []
    in_tests = False
    skip_next = 0
    for i, line in enumerate(src):
        if re.match(r"\s*#\[cfg\(test\)\]", line) or re.match(r"\s*mod tests?\b", line):
            in_tests = True
        if in_tests:
            continue
        if "cfg(feature = \"verif\")" in line:
            skip_next = 2
        if skip_next:
            skip_next -= 1
            continue
        if SKIP_LINE.search(line):
            continue
        code = line.split("//")[0]
        if '"' in code and ("bail!" in code or "Error" in code):
            pass
        for kind, pat, rep in OPS:
            for m in re.finditer(pat, code):
                if kind in ("rel",) and ("->" in code or "=>" in code or "fn " in code or "impl" in code or "::<" in code):
                    continue
                if kind == "const" and ("[" in code and "]" in code and ";" not in code):
                    continue
                # not inside a string literal
                if code[: m.start()].count('"') % 2 == 1:
                    continue
                new = code[: m.start()] + (rep if kind != "cond" else re.sub(pat, rep, m.group(0))) + code[m.end():]
                if new == code:
                    continue
                out.append({"file": path, "line": i + 1, "op": kind, "before": line.strip(), "after": new.strip(), "new_line": new + line[len(code):] if False else new})
        # statement deletion: simple one-line statements
        s = code.strip()
        if s.endswith(";") and not s.startswith(("let ", "return", "break", "continue", "pub ", "const ", "static ", "type ", "use ")) and "bail!" not in s and s.count("(") == s.count(")") and s.count("{") == s.count("}"):
            if re.match(r"^(self\.|\*|[a-z_][a-z0-9_\.\[\]]*\s*(=|\+=|-=)|[a-z_][a-z0-9_:\.]*\()", s):
                out.append({"file": path, "line": i + 1, "op": "delete", "before": s, "after": "", "new_line": ""})
        if s in ("return;", "continue;", "break;"):
            out.append({"file": path, "line": i + 1, "op": "delete", "before": s, "after": "", "new_line": ""})
    for c in out:
        c["id"] = hashlib.sha1(f"{c['file']}:{c['line']}:{c['op']}:{c['after']}".encode()).hexdigest()[:10]
    return out


def run(cmd, cwd=None, env=None, timeout=3600):
    return subprocess.run(cmd, cwd=cwd, env=env, shell=isinstance(cmd, str), capture_output=True, text=True, timeout=timeout)


class Slot:
    """a persistent scratch worktree + harness copy, so that builds are incremental"""

    def __init__(self, n):
        self.base = f"/var/tmp/amut/{n}"
        self.repo = f"{self.base}/repo"
        self.vr = f"{self.base}/verif"
        shutil.rmtree(self.base, ignore_errors=True)
        os.makedirs(self.base)
        with GIT:
            run(["git", "-C", "/repo", "worktree", "prune"])
            run(["git", "-C", "/repo", "worktree", "add", "--detach", "-f", self.repo, "HEAD"])
        os.makedirs(self.vr)
        shutil.copytree(f"{ROOT}/harness", f"{self.vr}/harness", ignore=shutil.ignore_patterns("target", "fuzz"))
        cargo = open(f"{self.vr}/harness/Cargo.toml").read().replace("/repo/crates", f"{self.repo}/crates")
        open(f"{self.vr}/harness/Cargo.toml", "w").write(cargo)
        shutil.copy(f"{ROOT}/known_findings.json", f"{self.vr}/known_findings.json")
        if os.path.isdir(f"{ROOT}/replays"):
            shutil.copytree(f"{ROOT}/replays", f"{self.vr}/replays")

    def close(self):
        with GIT:
            run(["git", "-C", "/repo", "worktree", "remove", "--force", self.repo])
        shutil.rmtree(self.base, ignore_errors=True)

    def one(self, c):
        res = dict(c)
        res.pop("new_line", None)
        path = f"{self.repo}/{c['file']}"
        orig = open(path).read()
        lines = orig.split("\n")
        lines[c["line"] - 1] = c["new_line"]
        try:
            open(path, "w").write("\n".join(lines))
            b = run("cargo build --workspace --offline 2>&1 | grep -E '^error' | head -3", cwd=self.repo)
            if b.stdout.strip():
                res["tests"] = "does not compile"
                return res
            try:
                t = run("cargo test --workspace --no-fail-fast --offline 2>&1 | grep -E 'test result|error(\\[|:)' | grep -vE 'ok\\.' | head -5", cwd=self.repo, timeout=900)
            except subprocess.TimeoutExpired:
                run("pkill -f " + self.repo + "/target || true")
                res["tests"] = "hang in the repository's tests"
                return res
            res["tests"] = "pass" if t.stdout.strip() == "" else "fail: " + t.stdout.strip()[:200]
            if res["tests"] != "pass":
                return res
            b = run("cargo build --release --offline 2>&1 | tail -3", cwd=f"{self.vr}/harness")
            binp = f"{self.vr}/harness/target/release/mbn-verif"
            if "error" in b.stdout:
                res["error"] = "harness does not build: " + b.stdout[-300:]
                return res
            env = dict(os.environ, VERIF_ROOT=self.vr, VERIF_SEED="1")
            res["checks"] = {}
            for chk in FILES[c["file"]]:
                t0 = time.time()
                try:
                    r = run([binp, "check", chk, "--tier", "quick", "--jobs", "8"], cwd=self.vr, env=env, timeout=1500)
                    sigs = [l[len("violation: "):] for l in r.stdout.splitlines() if l.startswith("violation: ")]
                    res["checks"][chk] = {"exit": r.returncode, "signatures": sigs[:2], "s": round(time.time() - t0, 1)}
                    if r.returncode == 1:
                        break  # killed
                except subprocess.TimeoutExpired:
                    res["checks"][chk] = {"exit": "timeout"}
            return res
        finally:
            open(path, "w").write(orig)


def main():
    args = sys.argv[1:]
    jobs, per_file, seed, only_list = 2, 8, 1, False
    rerun = None
    while args and args[0].startswith("--"):
        if args[0] == "--jobs":
            jobs = int(args[1]); args = args[2:]
        elif args[0] == "--per-file":
            per_file = int(args[1]); args = args[2:]
        elif args[0] == "--seed":
            seed = int(args[1]); args = args[2:]
        elif args[0] == "--list":
            only_list = True; args = args[1:]
        elif args[0] == "--rerun":
            rerun = args[1].split(","); args = args[2:]
    out_path = f"{ROOT}/tools/automut_result.json"
    results = json.load(open(out_path)) if os.path.exists(out_path) else {}
    todo = []
    if rerun:
        # run named mutants ("file.rs:line") again, whatever was recorded for them
        for f in FILES:
            for c in candidates(f):
                if f"{f.split('/')[-1]}:{c['line']}" in rerun and c["id"] in results:
                    todo.append(c)
        args = ["\0"]
    for f in FILES:
        if args and not any(a in f for a in args):
            continue
        cs = candidates(f)
        rnd = random.Random(f"{seed}:{f}")
        rnd.shuffle(cs)
        k = per_file * max(1, len(open(f"/repo/{f}").read().split("\n")) // 300)
        picked = [c for c in cs if c["id"] not in results][:k]
        print(f"{f}: {len(cs)} candidates, {len(picked)} picked", flush=True)
        todo += picked
    if only_list:
        for c in todo:
            print(c["file"], c["line"], c["op"], "|", c["before"], "=>", c["after"])
        return
    random.Random(seed).shuffle(todo)
    slots = [Slot(i) for i in range(jobs)]
    free = list(slots)
    lock = threading.Lock()

    def work(c):
        with lock:
            s = free.pop()
        try:
            return s.one(c)
        finally:
            with lock:
                free.append(s)

    try:
        with cf.ThreadPoolExecutor(jobs) as ex:
            for r in ex.map(work, todo):
                results[r["id"]] = r
                ch = {k: v.get("exit") for k, v in r.get("checks", {}).items()}
                killed = any(v == 1 for v in ch.values())
                tag = "KILLED" if killed else ("SURVIVED" if r.get("tests") == "pass" else "-")
                print(f"{tag:9s} {r['file'].split('/')[-1]}:{r['line']} {r['op']:7s} tests={r.get('tests','?')[:24]:24s} {ch} | {r['before'][:70]} => {r['after'][:50]} {r.get('error','')}", flush=True)
                json.dump(results, open(out_path, "w"), indent=1)
    finally:
        for s in slots:
            s.close()


if __name__ == "__main__":
    main()
