#!/usr/bin/env python3
"""Sensitivity protocol (DESIGN.md section 7): apply one hand-written mutant at a time to a scratch
worktree of /repo, build a scratch copy of the harness against it and require the quick tier of the
named checks to report a violation.

usage: tools/mutants.py [--jobs N] [name-substring ...]
Results are appended to tools/mutants_result.json (kill matrix). Scratch trees live under /var/tmp/mut
and are removed after each mutant.
"""
import json, os, shutil, subprocess, sys, time, threading, concurrent.futures as cf
GIT = threading.Lock()

ROOT = os.path.dirname(os.path.dirname(os.path.abspath(__file__)))
FW = "crates/maybenot/src/framework.rs"
SIM = "crates/maybenot-simulator/src/lib.rs"
NET = "crates/maybenot-simulator/src/network.rs"
ST = "crates/maybenot/src/state.rs"
MA = "crates/maybenot/src/machine.rs"
DI = "crates/maybenot/src/dist.rs"
AC = "crates/maybenot/src/action.rs"
FFI = "crates/maybenot-ffi/src/lib.rs"
FFI2 = "crates/maybenot-ffi/src/ffi.rs"
PA = "crates/maybenot/src/parsing.rs"
QE = "crates/maybenot-simulator/src/queue_event.rs"

# (name, file, old, new, [checks expected to catch it])
M = [
 # ---- C01
 ("c01_drop_unknown_id_guard_timerend", FW, """            TriggerEvent::TimerEnd { machine } => {
                let mi = machine.into_raw();
                if mi >= self.runtime.len() {
                    return;
                }""", """            TriggerEvent::TimerEnd { machine } => {
                let mi = machine.into_raw();
                if mi > self.runtime.len() {
                    return;
                }""", ["C01"]),
 ("c01_unguarded_limit_decrement", FW, """        if self.runtime[mi].state_limit > 0 {
            self.runtime[mi].state_limit -= 1;
        }""", """        self.runtime[mi].state_limit -= 1;""", ["C01", "C07", "C05"]),
 ("c01_counter_add_overflows", FW, "*updated_value_a = updated_value_a.saturating_add(change);", "*updated_value_a += change;", ["C01", "C08", "C05"]),
 ("c01_reset_zeroed_flags_in_transition", FW, """        // a machine in end state cannot transition
        if self.runtime[mi].current_state == STATE_END {""", """        self.counter_zeroed_once[mi] = (false, false);
        // a machine in end state cannot transition
        if self.runtime[mi].current_state == STATE_END {""", ["C01", "C08", "C05"]),
 # ---- C02
 ("c02_machine_frac_gt", FW, "runtime.padding_sent as f64 / total as f64 >= machine.max_padding_frac", "runtime.padding_sent as f64 / total as f64 > machine.max_padding_frac", ["C02", "C05"]),
 ("c02_global_frac_gt", FW, "self.padding_sent_packets as f64 / total as f64 >= self.max_padding_frac", "self.padding_sent_packets as f64 / total as f64 > self.max_padding_frac", ["C02", "C05"]),
 ("c02_global_counts_only_known_ids", FW, """                self.padding_sent_packets += 1;

                let mi = machine.into_raw();
                if mi >= self.runtime.len() {
                    return;
                }""", """                let mi = machine.into_raw();
                if mi >= self.runtime.len() {
                    return;
                }
                self.padding_sent_packets += 1;""", ["C02", "C05"]),
 ("c02_global_uses_machine_counter", FW, "let total = self.padding_sent_packets + self.normal_sent_packets;", "let total = runtime.padding_sent + self.normal_sent_packets;", ["C02", "C05"]),
 # ---- C03
 ("c03_machine_frac_gt", FW, "if f >= machine.max_blocking_frac {", "if f > machine.max_blocking_frac {", ["C03", "C05"]),
 ("c03_drop_ongoing_block_term", FW, """            g_block_dur += self
                .current_time
                .saturating_duration_since(self.blocking_started);""", "", ["C03", "C05"]),
 ("c03_replace_escape_ignores_active", FW, "if replace && self.blocking_active {", "if replace {", ["C03", "C05"]),
 ("c03_budget_le", FW, "if m_block_dur < runtime.allowed_blocked_microsec {", "if m_block_dur <= runtime.allowed_blocked_microsec {", ["C03", "C05"]),
 # ---- C04
 ("c04_no_timeout_clamp", AC, "timeout.sample(rng).min(MAX_SAMPLED_TIMEOUT).round() as u64", "timeout.sample(rng).round() as u64", ["C04", "C05", "C13"]),
 ("c04_no_timer_duration_clamp", AC, "duration.sample(rng).min(MAX_SAMPLED_TIMER_DURATION).round() as u64", "duration.sample(rng).round() as u64", ["C04", "C05"]),
 ("c04_signal_revives_end", FW, """        // a machine in end state cannot transition
        if self.runtime[mi].current_state == STATE_END {
            return StateChange::Unchanged;
        }""", """        // a machine in end state cannot transition
        if self.runtime[mi].current_state == STATE_END {
            if event != Event::Signal {
                return StateChange::Unchanged;
            }
            self.runtime[mi].current_state = 0;
        }""", ["C04", "C05"]),
 # ---- C05
 ("c05_schedule_before_counter", FW, """                let (allow_schedule, state_changed) = self.update_counter(mi);

                // schedule an action if allowed by counter update and below all limits
                if allow_schedule && below_limits {
                    self.schedule_action(mi, next_state);
                }""", """                if below_limits {
                    self.schedule_action(mi, next_state);
                }
                let (_allow_schedule, state_changed) = self.update_counter(mi);""", ["C05", "C08"]),
 ("c05_resample_limit_on_self_transition", FW, "if curr_state != next_state {", "if curr_state != next_state || event == Event::NormalRecv {", ["C05", "C07"]),
 ("c05_reverse_order_tunnelsent", FW, """                for mi in 0..self.runtime.len() {
                    self.transition(mi, Event::TunnelSent);
                }""", """                for mi in (0..self.runtime.len()).rev() {
                    self.transition(mi, Event::TunnelSent);
                }""", ["C05"]),
 ("c05_static_counter_influences", ST, """        use rand::Rng;
        if let Some(vector) = &self.transitions[event.to_usize()] {""", """        use rand::Rng;
        if let Some(vector) = &self.transitions[event.to_usize()] {
            static CALLS: std::sync::atomic::AtomicU64 = std::sync::atomic::AtomicU64::new(0);
            if CALLS.fetch_add(1, std::sync::atomic::Ordering::Relaxed) % 4096 == 4095 {
                return None;
            }""", ["C05", "C06"]),
 # ---- C06
 ("c06_r_le_sum", ST, "if r < sum {", "if r <= sum {", ["C06", "C05"]),
 ("c06_no_accumulation", ST, "sum += t.1;\n                if r < sum", "sum = t.1;\n                if r < sum", ["C06", "C05"]),
 ("c06_residual_takes_first", ST, """                if r < sum {
                    return Some(t.0);
                }
            }
        }
        None""", """                if r < sum {
                    return Some(t.0);
                }
            }
            if sum > 0.9999 {
                return vector.first().map(|t| t.0);
            }
        }
        None""", ["C06"]),
 # ---- C07
 ("c07_foreign_blockingbegin_decrements", FW, """                        && self.runtime[mi].current_state != STATE_END
                        && mi == machine.into_raw()""", """                        && self.runtime[mi].current_state != STATE_END""", ["C07", "C05", "C10"]),
 ("c07_off_by_one", FW, "if self.runtime[mi].state_limit == 0 && action.has_limit() {", "if self.runtime[mi].state_limit <= 1 && action.has_limit() {", ["C07", "C05"]),
 ("c07_skip_withdrawal", FW, """                self.actions[mi] = None;
                // next, we trigger internally event LimitReached""", """                // next, we trigger internally event LimitReached""", ["C07", "C05"]),
 ("c07_timer_ignores_limit", FW, "Action::UpdateTimer { .. } => runtime.state_limit > 0,", "Action::UpdateTimer { .. } => true,", ["C07", "C05"]),
 # ---- C08
 ("c08_wrapping_sub", FW, "*updated_value_b = updated_value_b.saturating_sub(change);", "*updated_value_b = updated_value_b.wrapping_sub(change);", ["C08", "C05"]),
 ("c08_copy_new_value", FW, """            let change = if counter_b.copy {
                old_value_a""", """            let change = if counter_b.copy {
                self.runtime[mi].counter_a""", ["C08", "C05"]),
 ("c08_fire_on_zero_to_zero", FW, "if old_value_a != 0 && *updated_value_a == 0 && !self.counter_zeroed_once[mi].0 {", "if *updated_value_a == 0 && !self.counter_zeroed_once[mi].0 && counter_a.operation == Operation::Decrement {", ["C08", "C05"]),
 ("c08_guard_removed_for_b", FW, "if old_value_b != 0 && *updated_value_b == 0 && !self.counter_zeroed_once[mi].1 {", "if old_value_b != 0 && *updated_value_b == 0 {", ["C08", "C05"]),
 # ---- C09
 ("c09_skip_second_round", FW, """                if let Some(excluded) = excluded {
                    self.transition(excluded, Event::Signal);
                }""", """                let _ = excluded;""", ["C09", "C05"]),
 ("c09_deliver_to_excluded", FW, """                    if excluded == mi {
                        continue;
                    }""", """                    if excluded == mi && mi == 0 {
                        continue;
                    }""", ["C09", "C05"]),
 ("c09_same_machine_becomes_all", FW, """                    Some(SignalTarget::AllExcept(other)) if other == mi => {
                        Some(SignalTarget::AllExcept(mi))
                    }""", "", ["C09", "C05"]),
 ("c09_leak_into_next_call", FW, """            self.signal_pending = None;
        }

        // only return actions, no None""", """        }

        // only return actions, no None""", ["C09", "C05"]),
 # ---- C10
 ("c10_shared_zeroed_flags", FW, "if old_value_a != 0 && *updated_value_a == 0 && !self.counter_zeroed_once[mi].0 {\n                any_counter_zeroed = true;\n                self.counter_zeroed_once[mi].0 = true;", "if old_value_a != 0 && *updated_value_a == 0 && !self.counter_zeroed_once[0].0 {\n                any_counter_zeroed = true;\n                self.counter_zeroed_once[0].0 = true;", ["C10", "C08", "C05"]),
 # ---- C11
 ("c11_read_to_end", MA, """        let mut buf = vec![0; MAX_DECOMPRESSED_SIZE];
        // a single read() may return before the stream ends or the buffer is
        // full, so read until either happens
        let mut bytes_read = 0;
        while bytes_read < buf.len() {
            match decoder
                .read(&mut buf[bytes_read..])
                .map_err(|e| Error::Machine(e.to_string()))?
            {
                0 => break,
                n => bytes_read += n,
            }
        }""", """        let mut buf = vec![];
        let bytes_read = decoder
            .read_to_end(&mut buf)
            .map_err(|e| Error::Machine(e.to_string()))?;""", ["C11"]),
 ("c11_single_read_again", MA, """        let mut bytes_read = 0;
        while bytes_read < buf.len() {
            match decoder
                .read(&mut buf[bytes_read..])
                .map_err(|e| Error::Machine(e.to_string()))?
            {
                0 => break,
                n => bytes_read += n,
            }
        }""", """        let bytes_read = decoder
            .read(&mut buf)
            .map_err(|e| Error::Machine(e.to_string()))?;""", ["C11"]),
 ("c11_drop_validate_in_from_str", MA, """        let m: Machine = r.map_err(|e| Error::Machine(e.to_string()))?;
        m.validate()?;""", """        let m: Machine = r.map_err(|e| Error::Machine(e.to_string()))?;""", ["C11", "C12"]),
 ("c11_len_check_2", MA, "if s.len() < 3 {", "if s.len() < 1 {", ["C11"]),
 ("c11_half_buffer", MA, "let mut buf = vec![0; MAX_DECOMPRESSED_SIZE];", "let mut buf = vec![0; MAX_DECOMPRESSED_SIZE / 2];", ["C11"]),
 ("c11_v1_drop_len_check", PA, """    if buf.len() < 4 * 8 + 1 + 2 {""", """    if buf.len() < 4 * 8 {""", ["C11"]),
 # ---- C12
 ("c12_frac_and", MA, "if !(0.0..=1.0).contains(&self.max_blocking_frac) {", "if self.max_blocking_frac < 0.0 && self.max_blocking_frac > 1.0 {", ["C12"]),
 ("c12_drop_duplicate_check", ST, """                if seen.contains(&t.0) {""", """                if false && seen.contains(&t.0) {""", ["C12"]),
 ("c12_framework_skips_validate", FW, "            m.validate()?;\n            runtime.push(MachineRuntime {", "            runtime.push(MachineRuntime {", ["C12"]),
 ("c12_accept_sum_gt_1", ST, "if !(sum > 0.0 && sum <= 1.0) {", "if !(sum > 0.0 && sum <= 1.5) {", ["C12"]),
 ("c12_weaken_uniform", DI, """                if low > high {""", """                if low > high && low > 0.0 {""", ["C12", "C13"]),
 ("c12_nan_probability_again", ST, "if !(t.1 > 0.0 && t.1 <= 1.0) {", "if t.1 <= 0.0 || t.1 > 1.0 {", ["C12"]),
 # ---- C13
 ("c13_remove_max_clamp", DI, """        if self.max > 0.0 {
            return r.min(self.max);
        }
        r""", """        r""", ["C13"]),
 ("c13_plain_add_nan_leaks", DI, "r = r.max(self.dist_sample(rng) + self.start);", "r = self.dist_sample(rng) + self.start; if r < 0.0 { r = 0.0; }", ["C13"]),
 ("c13_lower_min_probability", DI, "pub const DIST_MIN_PROBABILITY: f64 = 0.000_000_001;", "pub const DIST_MIN_PROBABILITY: f64 = 1e-300;", ["C13"]),
 # ---- C14
 ("c14_delay_plus", SIM, "let sent = timestamp - network.delay;", "let sent = timestamp + network.delay;", ["C14"]),
 ("c14_pps_times_1", SIM, "sq.max_pps = Some(sent_max_pps.max(recv_max_pps) * 10);", "sq.max_pps = Some(sent_max_pps.max(recv_max_pps));", ["C14"]),
 ("c14_drop_equal_preference", QE, """            // prefer a if it's equal, since it's the base event
            ordering == std::cmp::Ordering::Less || ordering == std::cmp::Ordering::Equal""", """            ordering == std::cmp::Ordering::Less""", ["C14", "C15", "C19"]),
 # ---- C15
 ("c15_recv_without_delay", NET, "next.time - next.integration_delay + network_delay + reporting_delay,", "next.time - next.integration_delay + reporting_delay,", ["C15", "C14"]),
 ("c15_padding_flag_flipped_on_replace", NET, """                        entry.bypass = true;
                        entry.replace = false;""", """                        entry.bypass = true;
                        entry.contains_padding = true;
                        entry.replace = false;""", ["C15"]),
 ("c15_skip_final_sort", SIM, "    trace.sort_by(|a, b| a.time.cmp(&b.time));", "", []),
 # ---- C16
 ("c16_bypass_overwrite_again", SIM, """                    client.blocking_bypassable =
                        bypass && (client.blocking_until.is_none() || client.blocking_bypassable);""", """                    client.blocking_bypassable = bypass;""", ["C16"]),
 ("c16_longest_rule_lt", SIM, "if replace || server.blocking_until.map_or(true, |until| block > until) {", "if replace || server.blocking_until.map_or(true, |until| block < until) {", ["C16"]),
 ("c16_replace_dropped", SIM, "if replace || client.blocking_until.map_or(true, |until| block > until) {", "if client.blocking_until.map_or(true, |until| block > until) {", ["C16"]),
 # ---- C17
 ("c17_internal_cancel_clears_action", SIM, """                    Timer::Internal => {
                        state.scheduled_internal_timer[machine.into_raw()] = None;""", """                    Timer::Internal => {
                        state.scheduled_action[machine.into_raw()] = None;
                        state.scheduled_internal_timer[machine.into_raw()] = None;""", ["C17"]),
 ("c17_ignore_overwrite_when_pending", SIM, """                state.scheduled_action[machine.into_raw()] = Some(ScheduledAction {
                    action: action.clone(),
                    time: *current_time + *timeout + trigger_delay,
                });
            }
            TriggerAction::BlockOutgoing {""", """                if state.scheduled_action[machine.into_raw()].is_none() {
                    state.scheduled_action[machine.into_raw()] = Some(ScheduledAction {
                        action: action.clone(),
                        time: *current_time + *timeout + trigger_delay,
                    });
                }
            }
            TriggerAction::BlockOutgoing {""", ["C17"]),
 # ---- C18
 ("c18_timer_lt_to_le", SIM, "if *replace || current.map_or(true, |c| c < *current_time + *duration) {", "if *replace || current.map_or(true, |c| c > *current_time + *duration) {", ["C18"]),
 ("c18_action_cancel_clears_internal", SIM, """                    Timer::Action => {
                        state.scheduled_action[machine.into_raw()] = None;""", """                    Timer::Action => {
                        state.scheduled_action[machine.into_raw()] = None;
                        state.scheduled_internal_timer[machine.into_raw()] = None;""", ["C18"]),
 ("c18_zero_duration_again", SIM, "if *replace || current.map_or(true, |c| c < *current_time + *duration) {", "if *replace || current.unwrap_or(*current_time) < *current_time + *duration {", ["C18"]),
 # ---- C19
 ("c19_server_thread_rng", SIM, "args.insecure_rng_seed.map(|seed| seed.wrapping_add(1)),", "None,", ["C19", "C16", "C17", "C18"]),
 ("c19_iteration_bound_gt", SIM, "if args.max_sim_iterations > 0 && sim_iterations >= args.max_sim_iterations {", "if args.max_sim_iterations > 0 && sim_iterations > args.max_sim_iterations {", ["C19"]),
 ("c19_pps_truncation_again", NET, "let added_delay = window / u32::try_from(pps).unwrap_or(u32::MAX);", "let added_delay = window / pps as u32;", ["C19"]),
 # ---- C20
 ("c20_swap_replace_bypass", FFI, """        } => MaybenotAction::SendPadding {
            timeout: timeout.into(),
            replace,
            bypass,""", """        } => MaybenotAction::SendPadding {
            timeout: timeout.into(),
            replace: bypass,
            bypass: replace,""", ["C20"]),
 ("c20_subsec_micros", FFI, "nanos: duration.subsec_nanos(),", "nanos: duration.subsec_micros(),", ["C20"]),
 ("c20_blockingbegin_as_timerbegin", FFI, "MaybenotEventType::BlockingBegin => TriggerEvent::BlockingBegin { machine },", "MaybenotEventType::BlockingBegin => TriggerEvent::TimerBegin { machine },", ["C20"]),
 ("c20_leak_the_box", FFI2, "let _this = unsafe { Box::from_raw(this) };", "let _this = std::mem::ManuallyDrop::new(unsafe { Box::from_raw(this) });", ["C20"]),
 ("c20_drop_null_check", FFI2, "if events.is_null() || actions_out.is_null() || num_actions_out.is_null() {", "if actions_out.is_null() || num_actions_out.is_null() {", ["C20"]),
]


def run(cmd, cwd=None, env=None, timeout=3600):
    return subprocess.run(cmd, cwd=cwd, env=env, shell=isinstance(cmd, str), capture_output=True, text=True, timeout=timeout)


def one(m, slot):
    name, path, old, new, checks = m
    base = f"/var/tmp/mut/{slot}"
    shutil.rmtree(base, ignore_errors=True)
    os.makedirs(base, exist_ok=True)
    repo = f"{base}/repo"
    with GIT:
        r = run(["git", "-C", "/repo", "worktree", "add", "--detach", "-f", repo, "HEAD"])
    res = {"name": name, "file": path, "expected": checks, "results": {}}
    try:
        src = open(f"{repo}/{path}").read()
        if src.count(old) != 1:
            res["error"] = f"pattern occurs {src.count(old)} times"
            return res
        open(f"{repo}/{path}", "w").write(src.replace(old, new))
        # does it still build and pass the repository's tests?
        t = run("cargo test --workspace --no-fail-fast --offline 2>&1 | grep -E 'test result|error(\\[|:)' | grep -vE 'ok\\.' | head -5", cwd=repo)
        res["repo_tests"] = "pass" if t.stdout.strip() == "" else t.stdout.strip()[:300]
        # scratch harness
        vr = f"{base}/verif"
        os.makedirs(vr)
        shutil.copytree(f"{ROOT}/harness", f"{vr}/harness", ignore=shutil.ignore_patterns("target", "fuzz"))
        cargo = open(f"{vr}/harness/Cargo.toml").read().replace("/repo/crates", f"{repo}/crates")
        open(f"{vr}/harness/Cargo.toml", "w").write(cargo)
        shutil.copy(f"{ROOT}/known_findings.json", f"{vr}/known_findings.json")
        if os.path.isdir(f"{ROOT}/replays"):
            shutil.copytree(f"{ROOT}/replays", f"{vr}/replays")
        b = run("cargo build --release --offline 2>&1 | tail -3", cwd=f"{vr}/harness")
        binp = f"{vr}/harness/target/release/mbn-verif"
        if not os.path.exists(binp):
            res["error"] = "harness does not build: " + b.stdout[-300:]
            return res
        env = dict(os.environ, VERIF_ROOT=vr, VERIF_SEED="1")
        for c in checks:
            t0 = time.time()
            try:
                r = run([binp, "check", c, "--tier", "quick", "--jobs", "8"], cwd=vr, env=env, timeout=1200)
                sigs = [l[len("violation: "):] for l in r.stdout.splitlines() if l.startswith("violation: ")]
                res["results"][c] = {"exit": r.returncode, "signatures": sigs[:4], "s": round(time.time() - t0, 1)}
            except subprocess.TimeoutExpired:
                res["results"][c] = {"exit": "timeout"}
        return res
    finally:
        with GIT:
            run(["git", "-C", "/repo", "worktree", "remove", "--force", repo])
        shutil.rmtree(base, ignore_errors=True)


def main():
    args = sys.argv[1:]
    jobs = 3
    if args and args[0] == "--jobs":
        jobs = int(args[1]); args = args[2:]
    todo = [m for m in M if not args or any(a in m[0] for a in args)]
    out_path = f"{ROOT}/tools/mutants_result.json"
    results = json.load(open(out_path)) if os.path.exists(out_path) else {}
    with cf.ThreadPoolExecutor(jobs) as ex:
        futs = {ex.submit(one, m, i): m for i, m in enumerate(todo)}
        for f in cf.as_completed(futs):
            r = f.result()
            results[r["name"]] = r
            caught = [c for c, v in r.get("results", {}).items() if v.get("exit") == 1]
            missed = [c for c, v in r.get("results", {}).items() if v.get("exit") != 1]
            print(f"{r['name']:45s} tests={r.get('repo_tests','?')[:20]:20s} caught={caught} missed={missed} {r.get('error','')}", flush=True)
            json.dump(results, open(out_path, "w"), indent=1)


if __name__ == "__main__":
    main()
