#!/usr/bin/env python3
"""Confirm seeded changes produced by independent sub-agents and run the checks against them.

usage: tools/seedcheck.py [--jobs N] <ID>/<k> ...     (inputs under /tmp/seed/<ID>/out/<k>/)
For each change: scratch worktree of /repo; the patch must apply; the repository's tests must pass
with it; the demonstration must fail with it and pass without it; then a scratch copy of the harness
is built against the patched tree and the quick tier of the named checks is run. Confirmed changes
are stored as /verif/seeded/<ID>_<k>/ (patch.diff, demo, meta.json with what was run and observed).
"""
import json, os, re, shutil, subprocess, sys, threading, time, concurrent.futures as cf

ROOT = os.path.dirname(os.path.dirname(os.path.abspath(__file__)))
GIT = threading.Lock()
ALSO = {  # further checks worth running for a property's seeded changes (C20 carries C01-C10 to the C API)
    "C02": ["C05", "C20"], "C03": ["C05", "C20"], "C04": ["C05", "C20"], "C07": ["C05", "C20"], "C08": ["C05", "C10", "C20"], "C09": ["C05", "C20"],
    "C10": ["C05", "C08", "C20"], "C01": ["C05", "C04", "C20"], "C05": ["C09", "C07", "C08", "C10", "C20", "C03"], "C06": ["C05", "C20"],
    "C11": ["C12"], "C12": ["C11", "C13"], "C13": ["C12", "C04"], "C14": ["C15", "C19"], "C15": ["C14", "C19"],
    "C16": ["C17", "C15"], "C17": ["C16", "C18"], "C18": ["C17", "C19"], "C19": ["C15", "C14"], "C20": ["C04"],
}


def run(cmd, cwd=None, env=None, timeout=3600):
    return subprocess.run(cmd, cwd=cwd, env=env, shell=isinstance(cmd, str), capture_output=True, text=True, timeout=timeout)


def demo_command(demo_text):
    """(crate, features, test name) from the demo's header comment"""
    m = re.search(r"cargo test[^\n]*?-p\s+(\S+)[^\n]*", demo_text)
    crate = m.group(1) if m else "maybenot"
    line = m.group(0) if m else ""
    f = re.search(r"--features\s+(\S+)", line)
    return crate, (f.group(1) if f else None)


def one(spec, tier="quick"):
    pid, k = spec.split("/")
    m = re.match(r"r(\d+)_(.+)$", k)
    if m:
        src = f"/tmp/seed/{pid}/out{m.group(1)}/{m.group(2)}"
    else:
        src = f"/tmp/seed/{pid}/out/{k}"
    if not os.path.exists(f"{src}/patch.diff"):
        src = f"{ROOT}/seeded/{pid}_{k}"
    base = f"/var/tmp/seedchk/{pid}_{k}"
    shutil.rmtree(base, ignore_errors=True)
    os.makedirs(base)
    repo = f"{base}/repo"
    res = {"id": f"{pid}_{k}", "property": pid}
    with GIT:
        run(["git", "-C", "/repo", "worktree", "add", "--detach", "-f", repo, "HEAD"])
    try:
        meta = json.load(open(f"{src}/meta.json")) if os.path.exists(f"{src}/meta.json") else {}
        res["agent_meta"] = meta
        demo_files = [f for f in os.listdir(src) if f.startswith("demo")]
        demo = f"{src}/demo.rs" if os.path.exists(f"{src}/demo.rs") else None
        crate, feats = ("maybenot", None)
        if demo:
            crate, feats = demo_command(open(demo).read())
            crate_dir = {"maybenot": "maybenot", "maybenot-simulator": "maybenot-simulator", "maybenot-ffi": "maybenot-ffi"}.get(crate, "maybenot")
            os.makedirs(f"{repo}/crates/{crate_dir}/tests", exist_ok=True)
            shutil.copy(demo, f"{repo}/crates/{crate_dir}/tests/seed_demo.rs")
        fe = f"--features {feats}" if feats else ""
        def run_demo():
            if not demo:
                return None
            r = run(f"cargo test --offline -p {crate} {fe} --test seed_demo 2>&1 | tail -40", cwd=repo)
            ok = "test result: ok" in r.stdout
            return ok, r.stdout[-600:]
        before = run_demo()
        res["demo_passes_without_patch"] = before[0] if before else None
        a = run(["git", "apply", f"{src}/patch.diff"], cwd=repo)
        if a.returncode != 0:
            res["error"] = "patch does not apply: " + a.stderr[:300]
            return res
        after = run_demo()
        res["demo_fails_with_patch"] = (not after[0]) if after else None
        if after and after[0]:
            res["demo_output_with_patch"] = after[1]
        if demo:
            os.remove(f"{repo}/crates/{crate_dir}/tests/seed_demo.rs")
        t = run("cargo test --workspace --no-fail-fast --offline 2>&1 | grep -E 'test result|error(\\[|:)' | grep -vE 'ok\\.' | head -5", cwd=repo)
        res["repo_tests_pass_with_patch"] = t.stdout.strip() == ""
        if t.stdout.strip():
            res["repo_tests_output"] = t.stdout.strip()[:300]
        # the checks
        vr = f"{base}/verif"
        os.makedirs(vr)
        shutil.copytree(f"{ROOT}/harness", f"{vr}/harness", ignore=shutil.ignore_patterns("target", "fuzz"))
        cargo = open(f"{vr}/harness/Cargo.toml").read().replace("/repo/crates", f"{repo}/crates")
        open(f"{vr}/harness/Cargo.toml", "w").write(cargo)
        shutil.copy(f"{ROOT}/known_findings.json", f"{vr}/known_findings.json")
        if os.path.isdir(f"{ROOT}/replays"):
            shutil.copytree(f"{ROOT}/replays", f"{vr}/replays")
        b = run("cargo build --release --offline 2>&1 | tail -5", cwd=f"{vr}/harness")
        binp = f"{vr}/harness/target/release/mbn-verif"
        if not os.path.exists(binp):
            res["error"] = "harness does not build against the patched tree: " + b.stdout[-400:]
            return res
        env = dict(os.environ, VERIF_ROOT=vr, VERIF_SEED="1")
        res["checks"] = {}
        for c in [pid] + ALSO.get(pid, []):
            t0 = time.time()
            try:
                r = run([binp, "check", c, "--tier", tier, "--jobs", "8"], cwd=vr, env=env, timeout=3000)
                sigs = [l[len("violation: "):] for l in r.stdout.splitlines() if l.startswith("violation: ")]
                res["checks"][c] = {"exit": r.returncode, "signatures": sigs[:4], "s": round(time.time() - t0, 1)}
            except subprocess.TimeoutExpired:
                res["checks"][c] = {"exit": "timeout"}
        # keep it
        confirmed = res.get("repo_tests_pass_with_patch") and res.get("demo_fails_with_patch") and res.get("demo_passes_without_patch")
        res["confirmed"] = bool(confirmed)
        dst = f"{ROOT}/seeded/{pid}_{k}"
        if confirmed and src != dst:
            os.makedirs(dst, exist_ok=True)
            shutil.copy(f"{src}/patch.diff", f"{dst}/patch.diff")
            for f in demo_files:
                if os.path.isdir(f"{src}/{f}"):
                    shutil.copytree(f"{src}/{f}", f"{dst}/{f}", dirs_exist_ok=True)
                else:
                    shutil.copy(f"{src}/{f}", f"{dst}/{f}")
        if confirmed:
            m = {
                "property": pid,
                "summary": meta.get("summary"),
                "needs": meta.get("needs"),
                "files": meta.get("files"),
                "source": "independent sub-agent given only the property text and a scratch worktree",
                "confirmed_by": {
                    "patch_applies_to": subprocess.run(["git", "-C", "/repo", "rev-parse", "--short", "HEAD"], capture_output=True, text=True).stdout.strip(),
                    "repo_tests_pass_with_patch": res["repo_tests_pass_with_patch"],
                    "demo_fails_with_patch": res["demo_fails_with_patch"],
                    "demo_passes_without_patch": res["demo_passes_without_patch"],
                    "demo_command": f"cp demo.rs crates/{crate}/tests/seed_demo.rs && cargo test --offline -p {crate} {fe} --test seed_demo",
                },
                "checks_quick_seed_1": res["checks"],
                "caught_by": [c for c, v in res["checks"].items() if v.get("exit") == 1],
            }
            json.dump(m, open(f"{dst}/meta.json", "w"), indent=1)
        return res
    finally:
        with GIT:
            run(["git", "-C", "/repo", "worktree", "remove", "--force", repo])
        shutil.rmtree(base, ignore_errors=True)


def main():
    args = sys.argv[1:]
    jobs = 2
    tier = "quick"
    while args and args[0].startswith("--"):
        if args[0] == "--jobs":
            jobs = int(args[1]); args = args[2:]
        elif args[0] == "--tier":
            tier = args[1]; args = args[2:]
    out_path = f"{ROOT}/tools/seedcheck_result.json"
    results = json.load(open(out_path)) if os.path.exists(out_path) else {}
    with cf.ThreadPoolExecutor(jobs) as ex:
        futs = {ex.submit(one, a, tier): a for a in args}
        for f in cf.as_completed(futs):
            r = f.result()
            results[r["id"]] = r
            ch = {c: v.get("exit") for c, v in r.get("checks", {}).items()}
            print(f"{r['id']:8s} confirmed={r.get('confirmed')} tests={r.get('repo_tests_pass_with_patch')} demo_fail_with={r.get('demo_fails_with_patch')} demo_pass_without={r.get('demo_passes_without_patch')} checks={ch} {r.get('error','')}", flush=True)
            json.dump(results, open(out_path, "w"), indent=1)


if __name__ == "__main__":
    main()
