#!/usr/bin/env python3
"""Regenerates MANIFEST.json from the table below (run after adding a property)."""
import json, os, subprocess
ROOT = os.path.dirname(os.path.dirname(os.path.abspath(__file__)))

# id -> (technique, level text, level note, design ref)
CHECKS = {
 "C01": ("property-based testing (proptest generators, scripted RNG + virtual clock, step-log work bound) with shrinking",
         "Generated-input search: validated machine sets x histories with batches, unknown ids, non-monotone virtual clock, scripted and seeded random streams; oracle = no panic/overflow/abort, random-word budget, and hook-observed machine steps <= 4(events+1)(machines+1) per call. A pass means no counterexample among the generated cases.",
         "Trusts the verif hook's step log to count transitions; overflow checks compiled into maybenot by the harness profile; loops that neither draw randomness nor log a step are only caught by the watchdog.",
         "DESIGN.md section 4 C01"),
}
NOT_YET = {}

def main():
    props = [json.loads(l) for l in open(os.path.join(ROOT, "properties.jsonl"))]
    hooks_commits = subprocess.run(["git", "-C", "/repo", "log", "--format=%H %s", "--grep=^verif hooks"],
                                   capture_output=True, text=True).stdout.strip().splitlines()
    checks = []
    na = []
    for p in props:
        pid = p["id"]
        if pid in CHECKS:
            tech, text, note, ref = CHECKS[pid]
            checks.append({
                "property_id": pid,
                "quick_cmd": f"./check {pid} --tier quick",
                "thorough_cmd": f"./check {pid} --tier thorough",
                "evidence_file": f"evidence/{pid}.json",
                "replay_cmd_template": f"./check {pid} --replay {{path}}",
                "engine": "mbn-verif",
                "level_claimed": {"category": "exploration", "text": text, "design_ref": ref},
                "level_note": note,
                "technique": tech,
            })
        else:
            na.append({"property_id": pid, "reason": NOT_YET.get(pid, "check not built yet in this session (planned, see DESIGN.md section 4); not a claim that the technique cannot apply")})
    m = {
        "version": 1,
        "setup_cmd": "./setup.sh",
        "hooks": {
            "guard": "cargo feature `verif` (crates maybenot and maybenot-simulator)",
            "enable": "the harness depends on /repo/crates/maybenot with features [parsing, verif] and on /repo/crates/maybenot-simulator with features [verif]; ./check rebuilds it with cargo build --release --offline",
            "baseline_off_cmd": "cd /repo && cargo test --workspace --no-fail-fast --offline",
            "source_commits": [c.split()[0] for c in hooks_commits],
            "add_only": True,
        },
        "engines": [{
            "name": "mbn-verif",
            "path": "harness/",
            "serves_properties": sorted(CHECKS.keys()),
            "kind_free_text": "Rust harness: proptest strategies driven by an explicit runner (per-case seeding from VERIF_SEED, 16 worker processes, value-tree shrinking, panic classification, known-findings file, JSON replay files), reference model, history monitors, simulator contract monitor; libFuzzer targets under harness/fuzz",
        }],
        "checks": checks,
        "notes": open(os.path.join(ROOT, "tools", "manifest_notes.txt")).read() if os.path.exists(os.path.join(ROOT, "tools", "manifest_notes.txt")) else "",
        "not_applicable": na,
    }
    json.dump(m, open(os.path.join(ROOT, "MANIFEST.json"), "w"), indent=1)
    print("checks:", len(checks), "not claimed:", len(na))

if __name__ == "__main__":
    main()
