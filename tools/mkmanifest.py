#!/usr/bin/env python3
"""Regenerates MANIFEST.json from the table below (run after adding a property)."""
import json, os, subprocess
ROOT = os.path.dirname(os.path.dirname(os.path.abspath(__file__)))

# id -> (technique, level text, level note, design ref)
CHECKS = {
 "C01": ("property-based testing (proptest generators, scripted RNG + virtual clock, hook-observed work bound) with shrinking",
         "Generated-input search: validated machine sets x histories with batches, unknown ids, non-monotone virtual clock, scripted and seeded random streams; oracle = no panic/overflow/abort, random-word budget, and hook-observed machine steps <= 4(events+1)(machines+1) per call. A pass means no counterexample among the generated cases. A `capi` profile also runs histories of deterministic machines through the C API (canary-guarded buffer, garbage-initialised count) and compares every call with the Rust framework, which is then held to the property on the same history. Machines that validation should reject are offered too (what it accepts is run), as are sets of more than 64 machines.",
         "Trusts the verif hook's step log to count transitions; overflow checks compiled into maybenot by the harness profile; loops that neither draw randomness nor log a step are only caught by the watchdog. The C-API pass needs deterministic machines (the C API owns its RNG and clock).",
         "DESIGN.md section 4 C01"),
 "C02": ("property-based testing with an independent recount monitor (exact integer fraction comparison)",
         "Generated single-event histories over machine sets with all budget/fraction corners; every returned SendPadding is judged against NormalSent/PaddingSent counts recomputed from the fed events only, fractions compared exactly. No counterexample among generated cases. A `capi` profile also runs histories of deterministic machines through the C API (canary-guarded buffer, garbage-initialised count) and compares every call with the Rust framework, which is then held to the property on the same history.",
         "The oracle is independent of the framework's counters; 'limit set' means > 0; batches are covered by C05.",
         "DESIGN.md section 4 C02"),
 "C03": ("property-based testing with an independent blocked-time recount over a virtual clock",
         "Generated single-event histories with arbitrary BlockingBegin/End placement and non-monotone virtual clock; blocked and elapsed time recomputed in integer microseconds from the inputs, shares compared exactly with the f64 limits. A second profile runs the same budgets through the crate's own std::time::Duration implementation with a nanosecond virtual clock; there the share is judged exactly on the nanosecond integers with a relative margin of 1e-9.",
         "Virtual clock values < 2^50 so no duration saturates and the framework's single division is the only rounding (it can only err towards denying). The std::time::Duration pass tolerates the two float conversions of as_secs_f64 (margin 1e-9), so only a clear excess is reported. The C API's own clock is covered by C20's clock cases.",
         "DESIGN.md section 4 C03"),
 "C04": ("property-based testing of an output-contract predicate (incl. heavy-tailed/unbounded distributions)",
         "Generated machine sets x batch histories; per call: distinct existing machine ids, kind/flags defined by some state, timeouts/durations <= 24 h, nothing after END. A `capi` profile also runs histories of deterministic machines through the C API (canary-guarded buffer, garbage-initialised count) and compares every call with the Rust framework, which is then held to the property on the same history. Batches of up to 700 events, more than 64 machines, the same machine listed twice.",
         "END status read from the hook snapshot; durations are exact virtual-clock microseconds.",
         "DESIGN.md section 4 C04"),
 "C05": ("model-based testing: lock-step reference semantics, bounded-exhaustive enumeration of histories and draw outcomes for small machine families + random lock-step + twin/clone runs",
         "An independent reference interpreter of the documented operational semantics is run in lock-step with the framework (actions and state after every call): exhaustively over all histories up to a depth bound and every outcome of every draw for small machine families, and on random larger machines/histories; twin instances and clones must agree.",
         "The model's random-draw discipline (one 32-bit word per lookup of a non-empty transition list) is pinned to rand 0.8.8 and self-tested; where documentation is silent the model follows the pinned tree (listed in src/model.rs). The model draws Uniform samples (constants included) itself; the other ten families' samples come from the crate's Dist::sample (C13 judges those).",
         "DESIGN.md section 4 C05"),
 "C06": ("exhaustive enumeration of the draw's 2^23 outcomes per generated probability vector (property-based generation of vectors)",
         "For each generated validated probability vector, State::sample_state is evaluated on all 2^23 values of the uniform draw; per-target counts must equal p_i*2^23 exactly for dyadic vectors and within 1+i otherwise; framework-level probes tie the sampled target to the dispatched state/END/SIGNAL. Also: vectors validation must reject, the states of a machine that went through its string form (shares and all 13 event slots), delivery probes for every external event kind / id combination and for 1-4 signallers, a fleet of 65 540 machines.",
         "The mapping word -> f32 draw of rand 0.8.8 is self-tested at start-up; vectors are sampled, the draw is enumerated completely.",
         "DESIGN.md section 4 C06"),
 "C07": ("property-based testing with a limit monitor over the hook's step log",
         "Generated machines with limited actions x histories (single events and batches, own/foreign/unknown-id completions, self-loops, round trips); a monitor derives the remaining limit of each stay from the definition and the reported completions and judges schedulings, withdrawals, LimitReached and returned actions. A `capi` profile also runs histories of deterministic machines through the C API (canary-guarded buffer, garbage-initialised count) and compares every call with the Rust framework, which is then held to the property on the same history.",
         "Trusts the hook's step log and snapshot; budgets are unlimited in this domain so only the per-state limit can withhold an action.",
         "DESIGN.md section 4 C07"),
 "C08": ("property-based testing with a u128 counter model driven by the step log",
         "Generated counter specifications (all 9 kinds, values at 0/1/2^64 corners) x histories; a register model predicts every value and every CounterZero delivery ('exactly when') and checks precedence of the CounterZero action. A `capi` profile also runs histories of deterministic machines through the C API (canary-guarded buffer, garbage-initialised count) and compares every call with the Rust framework, which is then held to the property on the same history. 65-140 identical machines whose counters reach zero in the same call.",
         "The step log supplies which states were entered in which order; arithmetic, predictions and final values are the model's.",
         "DESIGN.md section 4 C08"),
 "C09": ("property-based testing with a signal-delivery monitor over the step log",
         "Generated signalling machine sets x multi-call batch histories; per call the set of signallers and the deliveries per live machine are read from the log and compared with the statement's rules. A `capi` profile also runs histories of deterministic machines through the C API (canary-guarded buffer, garbage-initialised count) and compares every call with the Rust framework, which is then held to the property on the same history. More than 64 machines; one call of hundreds of events.",
         "Trusts the hook's marking of the delivery round; rounds in calls without a signaller are left to C05.",
         "DESIGN.md section 4 C09"),
 "C10": ("metamorphic property-based testing (combined run vs solo run on the projected history)",
         "A deterministic subject machine is run next to 1..4 arbitrary neighbours and alone on the projected history; its per-call actions must be identical. Also 33-100 identical neighbours, and the subject alone / next to neighbours through the C API.",
         "Subject has probability-1 transitions and constant distributions; no SIGNAL targets; framework fractions 0.",
         "DESIGN.md section 4 C10"),
 "C11": ("property-based testing: round-trip oracle, structure-aware string/zlib/bincode mutation, bombs under a counting allocator",
         "Valid machines (up to the 1 MiB limit, exact-fit included) must round-trip exactly and behave identically; hostile strings (text, mutated encodings at three layers, mirror-struct payloads, bombs up to GiB, legacy v1 payloads) must give Err or a valid machine, never panic, within a memory bound independent of the decompressed size.",
         "Memory measured as peak live heap with a counting global allocator in a single-threaded worker; constant K derived from the 1 MiB limit.",
         "DESIGN.md section 4 C11"),
 "C12": ("property-based testing with an independent well-formedness predicate and differential comparison of the acceptance paths",
         "Machines with adversarial numbers/targets/distributions through Machine::new, validate(), from_str(encode(mirror)) and Framework::new: accepted => well-formed, and all paths agree; framework fractions likewise.",
         "Well-formedness of distribution parameters as the statement words it; sampling accepted distributions 16 times must neither panic nor loop.",
         "DESIGN.md section 4 C12"),
 "C13": ("property-based testing with scripted adversarial random prefixes and a random-word budget",
         "All 11 families at validation corners x prefixes of extreme words followed by a fair stream, through Dist::sample, Counter::sample_value and a one-state framework: returns within the word budget, value real, >= 0 and <= max.",
         "'Promptly' = <= 100 000 words beyond the prefix; two listed findings of the pinned rand_distr Binomial sampler are demonstrated in child processes and skipped by construction elsewhere.",
         "DESIGN.md section 4 C13"),
 "C14": ("property-based testing with an exact trace-reproduction oracle",
         "Generated traces x delays through sim() and sim_advanced() with every filter combination: client tunnel events at exactly the trace's times, server mirror shifted by the delay, nothing else.",
         "parse_trace's hidden anchor is derived from the first packet and bracketed by two Instant::now() readings; every other packet must agree to the nanosecond.",
         "DESIGN.md section 4 C14"),
 "C15": ("property-based testing with conservation/causality invariants over the output trace",
         "Generated traces x machine sets on both sides x delays/pps/fractions/seeds: injective matching of receives to sends of the same kind at least one delay earlier, no normal packet created, all delivered when the run completed, time-ordered output.",
         "Unfiltered output with an iteration bound; matching decided by the sorted greedy criterion (exact).",
         "DESIGN.md section 4 C15"),
 "C16": ("property-based testing with a contract monitor (framework replay + fire log) for blocking",
         "Each side's events are replayed through a framework seeded like the simulator's to recover the actions; blocking expiry and bypass permission are derived per the contract and every BlockingBegin/End and TunnelSent is judged against them.",
         "Relies on C05 (determinism) for the replay and on the hook's fire log for same-instant ordering; a packet leaving exactly at the expiry instant is not counted as inside the period. A packet leaving exactly at an expiry instant obliges the blocking to end there: if a BlockOutgoing carried out at that instant extends it instead and no BlockingEnd was reported, neither order of the coinciding things explains the trace.",
         "DESIGN.md section 4 C16"),
 "C17": ("property-based testing with a contract monitor (framework replay + fire log) for action timers",
         "Per machine the pending action (kind, due, flags) follows the replayed actions; every logged firing must be the current pending action at its due time, every PaddingSent/BlockingBegin the report of exactly one firing at that time, nothing superseded fires, nothing due is passed.",
         "As C16.",
         "DESIGN.md section 4 C17"),
 "C18": ("property-based testing with a contract monitor (framework replay + fire log) for internal timers",
         "Per machine the internal timer follows the UpdateTimer/Cancel actions of the replay; TimerBegin must follow an UpdateTimer at that instant (required when it sets/changes the timer), TimerEnd exactly once at the computed expiry, never for cancelled/superseded timers.",
         "As C16.",
         "DESIGN.md section 4 C18"),
 "C19": ("property-based differential/metamorphic testing (twin runs, filtered vs projected unfiltered run)",
         "Two seeded runs on clones of one queue must be equal; each filtered run must equal the projection of the unfiltered run (same iteration bound) or a prefix of it (length bound); no panic, time-ordered, bounds respected, incl. pps limits up to usize::MAX.",
         "Twin runs can refute but not prove reproducibility; SimEvent equality is the derived PartialEq.",
         "DESIGN.md section 4 C19"),
 "C20": ("differential property-based testing of the extern \"C\" API against the Rust API, canary-guarded buffers, counting allocator",
         "Deterministic machines x event batches through maybenot_on_events vs Framework::trigger_events, field for field; count <= num_machines, canaries intact; start arguments vs the Rust API's verdict and error codes; null pointers; heap growth across identical start/stop cycles. Clock cases: a blocking-fraction limit, real sleeps, judged only when the measured bounds clear the limit by a wide margin. Batches of up to 1100 events, rejected calls in the middle of a run, duplicate machine lines, garbage in unused event members.",
         "Clock-independent machines only (the C API owns clock and RNG); CR-containing strings only required not to crash. The differential uses clock-independent machines; the clock cases are the only time-dependent ones.",
         "DESIGN.md section 4 C20"),
}
BUILT = set(open(os.path.join(ROOT,'tools','built.txt')).read().split())
NOT_YET = {}

def main():
    props = [json.loads(l) for l in open(os.path.join(ROOT, "properties.jsonl"))]
    hooks_commits = subprocess.run(["git", "-C", "/repo", "log", "--format=%H %s", "--grep=^verif hooks"],
                                   capture_output=True, text=True).stdout.strip().splitlines()
    checks = []
    na = []
    for p in props:
        pid = p["id"]
        if pid in CHECKS and (BUILT is None or pid in BUILT):
            tech, text, note, ref = CHECKS[pid]
            checks.append({
                "property_id": pid,
                "quick_cmd": f"./check {pid} --tier quick",
                "thorough_cmd": f"./check {pid} --tier thorough",
                "evidence_file": f"evidence/{pid}.json",
                "replay_cmd_template": f"./check {pid} --replay {{path}}",
                "engine": "mbn-verif",
                "level_claimed": {"category": "exploration", "text": text, "design_ref": ref},
                "level_note": note,
                "technique": tech,
            })
        else:
            na.append({"property_id": pid, "reason": NOT_YET.get(pid, "check not built yet in this session (planned, see DESIGN.md section 4); not a claim that the technique cannot apply")})
    m = {
        "version": 1,
        "setup_cmd": "./setup.sh",
        "hooks": {
            "guard": "cargo feature `verif` (crates maybenot and maybenot-simulator)",
            "enable": "the harness depends on /repo/crates/maybenot with features [parsing, verif] and on /repo/crates/maybenot-simulator with features [verif]; ./check rebuilds it with cargo build --release --offline",
            "baseline_off_cmd": "cd /repo && cargo test --workspace --no-fail-fast --offline",
            "source_commits": [c.split()[0] for c in hooks_commits],
            "add_only": True,
        },
        "engines": [{
            "name": "mbn-verif",
            "path": "harness/",
            "serves_properties": sorted(k for k in CHECKS if BUILT is None or k in BUILT),
            "kind_free_text": "Rust harness: proptest strategies driven by an explicit runner (per-case seeding from VERIF_SEED, 16 worker processes, value-tree shrinking, panic classification, known-findings file, JSON replay files), reference model, history monitors, simulator contract monitor; libFuzzer targets under harness/fuzz",
        }],
        "checks": checks,
        "notes": open(os.path.join(ROOT, "tools", "manifest_notes.txt")).read() if os.path.exists(os.path.join(ROOT, "tools", "manifest_notes.txt")) else "",
        "not_applicable": na,
    }
    json.dump(m, open(os.path.join(ROOT, "MANIFEST.json"), "w"), indent=1)
    print("checks:", len(checks), "not claimed:", len(na))

if __name__ == "__main__":
    main()
