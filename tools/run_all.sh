#!/bin/bash
# usage: tools/run_all.sh <tier> <seed>...   - runs every check, prints one line per check
cd "$(dirname "$0")/.."
tier=$1; shift
for seed in "$@"; do
  for p in C01 C02 C03 C04 C05 C06 C07 C08 C09 C10 C11 C12 C13 C14 C15 C16 C17 C18 C19 C20; do
    out=$(VERIF_SEED=$seed ./check $p --tier $tier 2>&1); code=$?
    echo "seed=$seed $p exit=$code $(echo "$out" | grep -E "^$p " | tail -1)"
    if [ $code -ne 0 ]; then echo "$out" | grep -vE "^KNOWN" | head -5; fi
  done
done
